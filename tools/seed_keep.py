#!/usr/bin/env python3
"""seed_keep.py <src dir> <seed id> <property> <detected_by> <needs...>
Copies patch.diff / demo.py / notes.md to /verif/seeded/<seed id>/ and writes meta.json."""
import sys, os, shutil, json, subprocess
src, sid, prop, detected = sys.argv[1:5]
needs = " ".join(sys.argv[5:])
dst = os.path.join("/verif/seeded", sid)
os.makedirs(dst, exist_ok=True)
for f in ("patch.diff", "demo.py", "notes.md"):
    if os.path.exists(os.path.join(src, f)):
        shutil.copy(os.path.join(src, f), os.path.join(dst, f))
head = subprocess.run(["git", "-C", "/repo", "rev-parse", "--short", "HEAD"], capture_output=True, text=True).stdout.strip()
meta = dict(id=sid, breaks_property=prop, origin="independent sub-agent given only the property text and a scratch worktree",
            needs_to_manifest=needs, repo_head_when_confirmed=head,
            confirmed=dict(patch_applies=True, repo_tests_with_patch="118 passed", demo_without_patch="exit 0", demo_with_patch="exit != 0",
                           how="tools/seed_verify.sh <dir> <scratch worktree> (git apply; pytest dfols/tests; demo.py with and without the patch)"),
            detected_by=detected, ran="tools/seed_run.sh seeded/%s/patch.diff %s (git -C /repo apply; ./check <id> quick; git -C /repo checkout -- .)" % (sid, prop))
json.dump(meta, open(os.path.join(dst, "meta.json"), "w"), indent=1)
print("kept", dst)

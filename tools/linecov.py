#!/usr/bin/env python3
"""linecov.py <dir> [--write] - aggregate the per-process line sets written under VERIF_LINECOV=<dir> and list the executable
statements of /repo/dfols/*.py that no check reached. Usage:
    rm -rf /tmp/lc; VERIF_LINECOV=/tmp/lc VERIF_NOEVIDENCE=1 tools/run_all.sh quick; python3 tools/linecov.py /tmp/lc --write
(--write stores the summary as evidence/linecov.json and evidence/linecov-unreached.txt)"""
import json, glob, os, sys, dis, types

REPO = os.environ.get("DFOLS_VERIF_REPO", "/repo")
VERIF = os.path.dirname(os.path.dirname(os.path.abspath(__file__)))


def executable_lines(path):
    src = open(path).read()
    code = compile(src, path, "exec")
    out = set()
    stack = [code]
    while stack:
        c = stack.pop()
        for _s, _e, ln in c.co_lines():
            if ln is not None and ln > 0:
                out.add(ln)
        for k in c.co_consts:
            if isinstance(k, types.CodeType):
                stack.append(k)
    return out, src.split("\n")


def main():
    d = sys.argv[1]
    hit = set()
    nproc = 0
    for f in glob.glob(os.path.join(d, "lines-*.json")):
        nproc += 1
        for fn, ln in json.load(open(f)):
            hit.add((fn, ln))
    summary = {}
    unreached_txt = []
    for fn in sorted(os.listdir(os.path.join(REPO, "dfols"))):
        if not fn.endswith(".py") or fn in ("__init__.py", "version.py"):
            continue
        ex, src = executable_lines(os.path.join(REPO, "dfols", fn))
        # module-level statements (imports, defs) execute at import, before the probe is armed in some processes: count as hit
        got = {ln for (f2, ln) in hit if f2 == fn}
        miss = sorted(ln for ln in ex if ln not in got)
        # drop lines that are pure 'def'/'class'/decorator/docstring headers
        miss = [ln for ln in miss if not src[ln - 1].lstrip().startswith(("def ", "class ", "@", '"""', "'''"))]
        summary[fn] = dict(executable=len(ex), reached=len(ex) - len(miss), unreached=len(miss))
        for ln in miss:
            unreached_txt.append("%s:%d: %s" % (fn, ln, src[ln - 1].rstrip()[:150]))
    tot_e = sum(v["executable"] for v in summary.values())
    tot_m = sum(v["unreached"] for v in summary.values())
    print(json.dumps(summary, indent=1))
    print("processes: %d; statements reached %d of %d (%.1f%%)" % (nproc, tot_e - tot_m, tot_e, 100.0 * (tot_e - tot_m) / max(1, tot_e)))
    print("\n".join(unreached_txt))
    if "--write" in sys.argv:
        json.dump(dict(processes=nproc, per_file=summary, reached=tot_e - tot_m, executable=tot_e), open(os.path.join(VERIF, "evidence", "linecov.json"), "w"), indent=1)
        open(os.path.join(VERIF, "evidence", "linecov-unreached.txt"), "w").write("\n".join(unreached_txt) + "\n")


if __name__ == "__main__":
    main()

#!/usr/bin/env python3
"""seed2_process.py <Cxx> [letters]  - rounds 2 and 3 (SEED_ROUND=3: reads /tmp/seed3_out_<Cxx>/<a|b>/, keeps as <Cxx>-<f|g>): confirm each sub-agent change found under /tmp/seed2_out_<Cxx>/<letter>/ in a scratch
worktree of the current /repo HEAD (patch applies, 118 repo tests pass with it, demo fails with it / passes without it), run the
owning quick check against the patched scratch tree (DFOLS_VERIF_REPO; /repo untouched) and, if the change is valid, keep it as
seeded/<Cxx>-<c|d|e>/ with meta.json. Prints one line per change."""
import json, os, subprocess, sys, shutil, time

VERIF = os.path.dirname(os.path.dirname(os.path.abspath(__file__)))
PY = "/venv/bin/python"
ROUND = int(os.environ.get("SEED_ROUND", "2"))
MAP = {2: {"a": "c", "b": "d", "c": "e"}, 3: {"a": "f", "b": "g"}, 4: {"a": "h", "b": "i"}, 5: {"a": "j", "b": "k"}, 6: {"a": "l", "b": "m"}}[ROUND]
ORIGIN = {2: "independent sub-agent (round 2) given only the property text and a scratch worktree; asked for three changes on "
             "different mechanisms, at least one needing two cooperating sites or a multi-step history",
          3: "independent sub-agent (round 3) given only the property text and a scratch worktree; asked for (a) a plausible 'improvement' "
             "(optimisation, caching, reordering, view instead of copy, simplified guard) that is wrong only in a corner and (b) a defect on "
             "an error / exit / restart / recovery path; the most obvious site for the property was excluded",
          4: "independent sub-agent (round 4) given only the property text and a scratch worktree; asked for (a) an interaction defect - the edit "
             "in a shared helper / data structure (util, params, diagnostic_info, Model accessors, result classes), visible through one caller or "
             "option only - and (b) a numerical / boundary defect (tolerance, constant, < vs <=, off-by-one, order of floating-point operations) "
             "that matters only at exact ties, extreme scalings, n = 1 / m = 1 or a count equal to its limit",
          5: "independent sub-agent (round 5) given only the property text and a scratch worktree; asked for (a) a pair of cooperating edits in two "
             "different functions, each harmless alone (demo passes with either half alone), breaking the property only together, and (b) a "
             "history-dependent defect (second or later run, base shift after a geometry step, slot replaced twice, seldom-used option combination, "
             "early exit in a particular phase, object re-used / reloaded twice; stale state left behind by an earlier step)",
          6: "independent sub-agent (round 6) given only the property text and a scratch worktree; asked for (a) a three-way feature interaction "
             "(invisible unless three independent conditions hold at once; demo passes with any one removed) and (b) a calling-convention / "
             "data-form defect (extra args, one-sided / infinite bounds, integer or non-contiguous arrays, n = 1 / m = 1 / m < n, numpy-scalar "
             "parameter values, do_logging=False / print_progress=True, objfun returning lists / the same array object, second call in one process)"}[ROUND]


def sh(cmd):
    return subprocess.run(cmd, shell=True, capture_output=True, text=True)


def main():
    prop = sys.argv[1]
    letters = sys.argv[2:] or sorted(MAP)
    WT = "/tmp/seed%dchk_%s" % (ROUND, prop)
    head = sh("git -C /repo rev-parse --short HEAD").stdout.strip()
    sh("git -C /repo worktree remove --force %s" % WT)
    if sh("git -C /repo worktree add --detach %s HEAD" % WT).returncode != 0:
        print("cannot create worktree")
        return 1
    try:
        for L in letters:
            src = "/tmp/seed%d_out_%s/%s" % (ROUND, prop, L)
            sid = "%s-%s" % (prop, MAP[L])
            if not os.path.exists(os.path.join(src, "patch.diff")):
                print(sid, "no patch.diff")
                continue
            sh("git -C %s reset -q --hard && git -C %s clean -fdq" % (WT, WT))
            ap = sh("git -C %s apply --check %s/patch.diff" % (WT, src))
            if ap.returncode != 0:
                ap3 = sh("git -C %s apply --3way %s/patch.diff" % (WT, src))
                if ap3.returncode != 0:
                    print(sid, "PATCH DOES NOT APPLY on", head, ap.stderr.strip()[:150])
                    continue
                sh("git -C %s reset -q" % WT)
                newdiff = sh("git -C %s diff" % WT).stdout
                open(os.path.join(src, "patch.diff"), "w").write(newdiff)
                sh("git -C %s checkout -q -- ." % WT)
                rebased = True
            else:
                rebased = False
            env = dict(os.environ, PYTHONPATH=WT, PYTHONDONTWRITEBYTECODE="1")
            try:
                base = subprocess.run([PY, os.path.join(src, "demo.py")], cwd=WT, env=env, capture_output=True, text=True, timeout=400).returncode
            except subprocess.TimeoutExpired:
                base = "timeout"
            sh("git -C %s apply %s/patch.diff" % (WT, src))
            t = subprocess.run([PY, "-m", "pytest", "-q", "-p", "no:cacheprovider", "dfols/tests"], cwd=WT, env=env, capture_output=True, text=True, timeout=900)
            tests = (t.stdout.strip().splitlines() or ["?"])[-1]
            try:
                mut = subprocess.run([PY, os.path.join(src, "demo.py")], cwd=WT, env=env, capture_output=True, text=True, timeout=400).returncode
            except subprocess.TimeoutExpired:
                mut = "timeout"
            valid = bool(base == 0 and mut not in (0, "timeout") and "118 passed" in tests)
            env2 = dict(os.environ, DFOLS_VERIF_REPO=WT, VERIF_NOEVIDENCE="1")
            c = subprocess.run([os.path.join(VERIF, "check"), prop, "quick"], cwd=VERIF, env=env2, capture_output=True, text=True, timeout=3600)
            lines = [l for l in c.stdout.splitlines() if l.startswith("VIOLATION")]
            first = lines[0].split("#", 1)[1].strip()[:260] if lines and "#" in lines[0] else None
            summary = next((l for l in c.stdout.splitlines() if " -> " in l), "")[:200]
            detected = bool(c.returncode == 1 and lines)
            print("%s valid=%s (tests: %s | demo without=%s with=%s%s) check_exit=%s violations=%d first=%s" % (
                sid, valid, tests[:12], base, mut, " | rebased" if rebased else "", c.returncode, len(lines), first), flush=True)
            if valid:
                dst = os.path.join(VERIF, "seeded", sid)
                os.makedirs(dst, exist_ok=True)
                for f in ("patch.diff", "demo.py", "notes.md"):
                    if os.path.exists(os.path.join(src, f)):
                        shutil.copy(os.path.join(src, f), os.path.join(dst, f))
                notes = open(os.path.join(src, "notes.md")).read() if os.path.exists(os.path.join(src, "notes.md")) else ""
                meta = dict(id=sid, round=ROUND, breaks_property=prop, origin=ORIGIN,
                            needs_to_manifest="see notes.md (written by the sub-agent): " + " ".join(notes.split())[:600],
                            repo_head_when_confirmed=head,
                            confirmed=dict(patch_applies=True, rebased_3way=rebased, repo_tests_with_patch=tests, demo_without_patch="exit %s" % base,
                                           demo_with_patch="exit %s" % mut,
                                           how="tools/seed2_process.py (scratch worktree of HEAD; git apply; pytest dfols/tests; demo.py with and without)"),
                            first_run=dict(at=time.strftime("%Y-%m-%d %H:%M"), check_exit=c.returncode, violation_lines=len(lines), first_violation=first,
                                           summary=summary, detected=detected,
                                           ran="DFOLS_VERIF_REPO=<patched scratch worktree> ./check %s quick" % prop),
                            final_verification=dict(repo_head=head, patch_applies=True, repo_tests_with_patch=tests, demo_without_patch_exit=base,
                                                    demo_with_patch_exit=mut, still_a_valid_seed=valid, check_exit=c.returncode,
                                                    violation_lines=len(lines), first_violation=first, summary=summary, detected=detected))
                mp = os.path.join(dst, "meta.json")
                if os.path.exists(mp):
                    try:
                        prev = json.load(open(mp))
                        meta["first_run"] = prev.get("first_run", meta["first_run"])   # a re-run never rewrites what the first run saw
                        meta["repo_head_when_confirmed"] = prev.get("repo_head_when_confirmed", head)
                    except Exception:
                        pass
                json.dump(meta, open(mp, "w"), indent=1)
    finally:
        sh("git -C /repo worktree remove --force %s" % WT)
        shutil.rmtree(WT, ignore_errors=True)
    return 0


if __name__ == "__main__":
    sys.exit(main())

#!/usr/bin/env python3
"""asbuilt_table.py - print the 'as built' table of DESIGN.md section 0 from evidence/C*.json (so the numbers are those of the last run)."""
import json, glob, os
VERIF = os.path.dirname(os.path.dirname(os.path.abspath(__file__)))
print("| | tier/seed | cases | executions monitored | distinct non-trivial | objective calls | known-finding occurrences | wall |")
print("|---|---|---|---|---|---|---|---|")
for f in sorted(glob.glob(os.path.join(VERIF, "evidence", "C*.json"))):
    e = json.load(open(f))
    c = e["coverage"]
    kf = c.get("known_findings_seen") or {}
    nk = sum(kf.values()) if isinstance(kf, dict) else len(kf)
    print("| %s | %s/%s | %s | %s | %s | %s | %s | %.0f s |" % (e["property_id"], e["tier"], e["seed"], c.get("cases", c.get("ncases", "")), c.get("evaluations", ""),
          c.get("distinct_nontrivial", ""), (c.get("counters") or {}).get("objfun_calls", c.get("objfun_calls", "")), nk, e.get("wall_s", 0)))

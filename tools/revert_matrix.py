#!/usr/bin/env python3
"""revert_matrix.py - for every 'fixed:' line of KNOWN_FINDINGS.txt: revert that repository commit in a scratch worktree of
the current HEAD and run the quick check of the property it is recorded under against the scratch tree
(DFOLS_VERIF_REPO redirect; /repo is not touched). A fixed entry suppresses nothing, so each revert must be reported as a
VIOLATION again. Writes seeded/REVERTS.md."""
import os, re, subprocess, sys, shutil

VERIF = os.path.dirname(os.path.dirname(os.path.abspath(__file__)))
WT = "/tmp/revertchk_wt"


def sh(cmd):
    return subprocess.run(cmd, shell=True, capture_output=True, text=True)


def main():
    fixed = []
    for line in open(os.path.join(VERIF, "KNOWN_FINDINGS.txt")):
        m = re.match(r"fixed:\s+property=(C\d+)\s+([0-9a-f]{7,})\s+(.*)", line.strip())
        if m:
            also = re.findall(r"\(also ([^)]*)\)", m.group(3))
            props = [m.group(1)] + ([p.strip() for p in also[-1].split(",")] if also else [])
            fixed.append((m.group(2), [p for p in props if re.match(r"C\d+$", p)], m.group(3)))
    only = sys.argv[1:]
    head = sh("git -C /repo rev-parse --short HEAD").stdout.strip()
    sh("git -C /repo worktree remove --force %s" % WT)
    if sh("git -C /repo worktree add --detach %s HEAD" % WT).returncode != 0:
        return 1
    rows = []
    try:
        for commit, props, what in fixed:
            if only and commit not in only:
                continue
            sh("git -C %s checkout -q -- . && git -C %s clean -fdq" % (WT, WT))
            r = sh("git -C /repo diff %s~1 %s -- dfols | git -C %s apply -R --3way" % (commit, commit, WT))
            if r.returncode != 0:
                r = sh("git -C /repo diff %s~1 %s -- dfols | git -C %s apply -R" % (commit, commit, WT))
            if r.returncode != 0:
                rows.append((commit, props, what, "revert does not apply cleanly on HEAD", None))
                print(commit, "revert does not apply", r.stderr[:200], flush=True)
                continue
            sh("git -C %s reset -q" % WT)
            t = subprocess.run(["/venv/bin/python", "-m", "pytest", "-q", "-p", "no:cacheprovider", "dfols/tests"], cwd=WT, capture_output=True, text=True,
                               env=dict(os.environ, PYTHONPATH=WT, PYTHONDONTWRITEBYTECODE="1"))
            tests = (t.stdout.strip().splitlines() or ["?"])[-1]
            for prop in props[:2]:
                env = dict(os.environ, DFOLS_VERIF_REPO=WT, VERIF_NOEVIDENCE="1")
                c = subprocess.run([os.path.join(VERIF, "check"), prop, "quick"], cwd=VERIF, env=env, capture_output=True, text=True, timeout=3600)
                lines = [l for l in c.stdout.splitlines() if l.startswith("VIOLATION")]
                first = lines[0].split("#", 1)[1].strip()[:200] if lines and "#" in lines[0] else None
                rows.append((commit, [prop], what, tests, dict(exit=c.returncode, n=len(lines), first=first)))
                print(commit, prop, tests[:20], c.returncode, len(lines), first, flush=True)
    finally:
        sh("git -C /repo worktree remove --force %s" % WT)
        shutil.rmtree(WT, ignore_errors=True)
    if not only:
        with open(os.path.join(VERIF, "seeded", "REVERTS.md"), "w") as f:
            f.write("# Reverting each repository fix (scratch worktree of HEAD %s) versus the check it is recorded under\n\n" % head)
            f.write("| fix commit | property | what had failed | repo tests with the revert | quick check exit | violations | first witness |\n|---|---|---|---|---|---|---|\n")
            for commit, props, what, tests, res in rows:
                f.write("| %s | %s | %s | %s | %s | %s | %s |\n" % (commit, ",".join(props), what[:110].replace("|", "/"), tests[:30], res and res["exit"], res and res["n"],
                                                            ((res and res["first"]) or "").replace("|", "/")[:150]))
    return 0


if __name__ == "__main__":
    sys.exit(main())

#!/bin/bash
# seed_verify.sh <dir with patch.diff + demo.py> <scratch worktree>
# Confirms: patch applies; 118 repo tests pass with it; demo fails with it; demo passes without it.
D=$1; WT=$2
git -C $WT checkout -q -- . || exit 9
git -C $WT apply --check $D/patch.diff || { echo "PATCH DOES NOT APPLY"; exit 9; }
( cd $WT && PYTHONPATH=$WT timeout 120 /venv/bin/python $D/demo.py >/dev/null 2>&1 ); base=$?
git -C $WT apply $D/patch.diff
t=$( cd $WT && PYTHONPATH=$WT /venv/bin/python -m pytest -q -p no:cacheprovider dfols/tests 2>&1 | tail -1 )
( cd $WT && PYTHONPATH=$WT timeout 120 /venv/bin/python $D/demo.py >/dev/null 2>&1 ); mut=$?
git -C $WT checkout -q -- .
find $WT -name __pycache__ -prune -exec rm -rf {} + 2>/dev/null
echo "tests_with_patch: $t | demo_without_patch_exit=$base | demo_with_patch_exit=$mut"
case "$t" in *"118 passed"*) ;; *) exit 1;; esac
[ $base -eq 0 ] && [ $mut -ne 0 ]

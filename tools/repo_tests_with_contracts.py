#!/venv/bin/python
"""Run the repository's own test-suite with every contract of vf/contracts.py (and the dykstra clauses of C15) switched on.
A contract that fires here is either too strict or a defect the tests do not assert: read the witness before relaxing anything.
Usage: /venv/bin/python tools/repo_tests_with_contracts.py   (exit 0 = silent)"""
import os, sys
VERIF = os.path.dirname(os.path.dirname(os.path.abspath(__file__)))
sys.path.insert(0, VERIF)
from vf import engine, contracts            # noqa: E402
from vf.props import c15                    # noqa: E402
import numpy as np                          # noqa: E402
import pytest                               # noqa: E402

contracts.STRICT = False
n = contracts.install_insitu(["trsbox", "trsbox_geometry", "ctrsbox_pgd", "ctrsbox_sfista", "ctrsbox_geometry"])
engine.install_dykstra_logger()
res = dict(viol=[], stats={})
ctx = engine.Ctx()


def hook(info):
    c15.check_call(info["P"], [], info["x0"], info["out"], info["calls"], info["max_iter"], info["tol"], res, "repo test", want_ref=False)


ctx.dykstra_hook = hook
# the tests import the routines with 'from dfols.trust_region import ...' at collection time, i.e. AFTER the patches above
with engine.monitoring(ctx):
    rc = pytest.main(["-q", "-p", "no:cacheprovider", os.path.join(engine.REPO, "dfols", "tests")])
print("bindings patched:", n, engine.BINDINGS.get("dykstra"))
print("contract clause evaluations:", {k: v for k, v in sorted(contracts.COUNTS.items())})
fails = contracts.drain()
for f in fails[:20]:
    print("CONTRACT FIRED:", f["kind"], f["msg"])
for v in res["viol"][:20]:
    print("CONTRACT FIRED:", v["kind"], v["msg"])
sys.exit(1 if (fails or res["viol"] or rc != 0) else 0)

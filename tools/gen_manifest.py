#!/usr/bin/env python3
"""Regenerates /verif/MANIFEST.json from the property modules that exist (vf/props/cNN.py) and the texts below."""
import json, os, sys, subprocess

VERIF = os.path.dirname(os.path.dirname(os.path.abspath(__file__)))
props = [json.loads(l) for l in open(os.path.join(VERIF, "properties.jsonl"))]

T = {
 "C01": ("exploration", "boundary history monitor: exact box test on every recorded objfun argument and soln.x; termination enumeration (every budget, every new minimum) over active-bound references; calling-form variations",
         "Held on the executions explored: every recorded evaluation point and soln.x of ~1,400 (quick) / 30,000 (thorough) bounded runs compared exactly with the bounds, half of them directed so that the minimiser lies outside the box while one option family (restarts with growing npt, growing, momentum/regression steps, random init, averaging, regulariser, scaling) generates points next to the bounds; domain-restricted residuals (sqrt) act as an in-situ trap. Sampling, not proof.",
         "Trusts the recording wrapper (copies x before the call) and IEEE comparisons; sampled configurations only.", "4 C01"),
 "C02": ("exploration", "boundary history + log tap: exact counting / numbering in one linear pass; budget-index enumeration",
         "Exact integer oracle over recorder + documented log line + nsamples-callback history; the budget-index enumeration makes the budget expire at every call of each reference run, so every budget test site trips.",
         "Point/evaluation numbers are the ones dfols logs; sampled configurations.", "4 C02"),
 "C03": ("exploration", "boundary history (bit-identity of residual vectors) at end of run and at every iteration (hook on the once-per-iteration model fit); budget-/exit-index and failpoint (injected LinAlgError / model-increase verdict) enumerations",
         "Identifies the returned / incumbent / saved point with a recorded evaluation by bit-equality of the residual vector and checks x, resid, obj against it, at end of run and at every iteration, over random runs plus budget-index and exit-index enumerations that end runs in every phase; coverage counted as (exit site, restart mode, averaging) triples.",
         "x tolerance 1e-12 relative (2 sqrt(p tol) with projections); residual vectors of distinct calls assumed bit-different.", "4 C03"),
 "C04": ("exploration", "boundary history: nothing better was ever observed (end of run, per run, per iteration); exit-/budget-index and failpoint (injected LinAlgError / model-increase verdict) enumerations; NaN-region objectives",
         "For deterministic un-averaged problems soln.obj is compared with every recomputed objective of the history, each run's result with the final one, and min(incumbent, saved) with the best so far at every iteration; the exit-index enumeration ends runs exactly when the point being abandoned is the best one.",
         "Objective recomputed by the harness from recorded residuals (+h); slack 1e-12 relative.", "4 C04"),
 "C05": ("exploration", "reference-model monitor: scipy lsq_linear (two methods cross-checked) on end-to-end default-budget runs",
         "End-to-end optimality gap against an independent bounded least-squares solver on thousands of (A, b, box, scaling, npt) instances with cond <= 1e3.",
         "lsq_linear is trusted when bvls and trf agree to 1e-9(1+f*); otherwise the case is inconclusive.", "4 C05"),
 "C06": ("exploration", "self-certifying reference solver (prox-gradient fixed point / KKT) + argument pass-through recorder + stored-objective hook",
         "Gap to a certified reference optimum and success flag on L1/L2 regularised instances incl. boxes; identity of argsh/argsprox sentinels at every call; per-iteration check that every stored objective includes h at the evaluated point. Two known findings (regulariser+scaling; optimal but warning flag) are keyed by mechanism.",
         "Reference accepted only with certificate; findings listed in KNOWN_FINDINGS.txt.", "4 C06"),
 "C07": ("fault_enumeration", "enumerated invalid inputs and parameter table (complete over the live key list) + sampled valid calls and calls borrowed from the generators of the other solver-level checks, under exception/livelock monitors",
         "Complete enumeration of the input-validation classes, of every live user_params key x value class {default, in-range, boundary, out-of-range, wrong type} against an independent table written from docs/advanced.rst, and of the EXIT_* names in the user guide; plus sampled valid calls watched for exceptions and livelock.",
         "Expectation table written from the documentation; boundary values demand only 'no exception, no livelock, documented flag' on a fixed problem set.", "4 C07"),
 "C08": ("fault_enumeration", "fault injection at every call index of reference runs (NaN, +inf, -inf, 1e200, raise; single and persistent)",
         "Every evaluation index of each reference run receives each fault kind in turn; the faulted history is checked for exceptions, bounds, budget, finite evaluated x, and that a bad value never displaces a finite best point; coverage by phase x kind.",
         "Faults are injected at the objfun boundary by the recorder; D22 (no finite point at all) is a keyed finding.", "4 C08"),
 "C09": ("exploration", "history joined with logged dykstra calls (bit-identity of evaluated points with projection outputs), distances judged with the harness's own projectors; in-place user projectors",
         "Every evaluated point of convex-constrained runs is matched bit-for-bit with the output of a logged projection call and checked against sqrt(p*tol) when that call stopped by its rule, exactly against the bounds always.",
         "Harness projectors are exact; tolerance is the one each call actually received.", "4 C09"),
 "C10": ("exploration", "result versus captured controller state and restart counters; exit-site capture; exit/budget-index and failpoint enumerations",
         "Each message is tied to the numerical fact it claims using state captured by harness wrappers (controllers, solve_main calls, completed soft restarts), over random runs and the directed enumerations; coverage = distinct exit records that ended a run.",
         "Restart counts come from harness wrappers; D22 keyed finding.", "4 C10"),
 "C11": ("exploration", "independent least-squares fit of the recorded history at the evaluations named by jacmin_eval_nums",
         "soln.jacobian is compared with an SVD fit through the recorded (x, mean residual) pairs of the named evaluations in user coordinates with a conditioning-scaled tolerance; for linear residuals also with A.",
         "Cases whose conditioning-scaled tolerance exceeds 1e-2 are skipped and counted.", "4 C11"),
 "C12": ("exploration", "icontract post-condition on the real trsbox, synthetic inputs + in situ; independent Cauchy-point oracle",
         "Feasibility, norm, non-increase, Cauchy decrease, gnew and argument immutability checked on 30,000+ synthetic inputs spanning the quantified space and on every call the solver makes in bounded runs.",
         "Rounding slack proportional to ulp(xopt); the steepest-descent clause requires its steplength above the routine's 1e-30 underflow guard.", "4 C12"),
 "C13": ("exploration", "icontract post-conditions on the real geometry / convex step routines, exact bisection oracle for the geometry optimum, in situ predicted-reduction monitor",
         "Global optimality of the geometry step against an exact independent solver, norm bounds of the three convex step solvers on hostile set geometries (wedges, polytopes cutting the ball), and non-negative predicted reduction of every regularised step handed to the main loop.",
         "ZERO_THRESH floor; 8 eps |xopt| rounding allowance.", "4 C13"),
 "C14": ("exploration", "boundary history with maxfun = npt (placement sub-space enumerated completely for n <= 2/3) + contracts on the direction generators",
         "All placements of x0 relative to each bound (7^n patterns) x npt x gap for small n are enumerated and the first npt evaluations checked for feasibility, distances, rank and conditioning; the generators are checked on all active-set patterns for n <= 4.",
         "The 2*delta 'extra directions for active constraints' of the orthogonal generator are a keyed finding.", "4 C14"),
 "C15": ("exploration", "contract on the real dykstra with call-counting projector wrappers (pure, in-place, shared-buffer) + independent certified reference projection; distances judged with the harness's own projectors",
         "Stopping rule, feasibility bound, 1e-3 optimality against a reference that is certified by the variational inequality, exact last-box membership, sweep cap - on 20,000 synthetic set geometries and in situ.",
         "Reference accepted only when certified (and never when an observed feasible point is closer).", "4 C15"),
 "C16": ("exploration", "identities checked after every fit on random Model operation histories (directly driven)",
         "Interpolation / least-squares / Lagrange identities and shift invariance with conditioning-scaled tolerances after every fit of random interleavings of replace / grow / shift / re-fit.",
         "Tolerance 1e-13 cond(W) max(1,|xbase|/spread).", "4 C16"),
 "C17": ("exploration", "shadow model compared after every operation of random operation sequences; in-situ post-conditions against the recorder",
         "State-machine style exploration: after each of up to 50 operations the real Model is compared slot by slot with a shadow model kept by the harness; the same relations run in situ during solver runs.",
         "The 'stale incumbent' exception is read as weakly as the code legitimately needs after a soft restart.", "4 C17"),
 "C18": ("exploration", "time-series invariants over soln.diagnostic_info cross-checked with the live controller at every iteration",
         "All radius / counter / column invariants checked on every row of the diagnostic table of runs over radii, budgets, noise, regression, growing and restart settings, and against the controller's live rho/delta.",
         "delta <= 1e10 is not claimed for regularised runs (uncapped division by tau).", "4 C18"),
 "C19": ("exploration", "differential replay under perturbed global RNG states; read-only / spy arguments; formed-call comparison (same values in other calling forms must give bit-identical sequences)",
         "Each configuration named by the property is run three times under different numpy global generator states and must produce bit-identical evaluation sequences and results; x0, bounds and user_params are compared with pristine copies and passed read-only.",
         "Options documented to use random directions are excluded (used as positive control).", "4 C19"),
 "C20": ("exploration", "round-trip oracle over harvested and synthetic results (strict JSON, strict dtype equality)",
         "to_dict -> strict json -> from_dict -> field-by-field equality and identical str() on results harvested across flags, sizes beyond the printing thresholds, diagnostics on/off, NaN entries, plus synthetic results.",
         "Row labels of the reloaded table are strings (JSON keys) and treated as representation; +-inf cells and save_xk/save_rk are keyed findings.", "4 C20"),
}

checks = []
na = []
for p in props:
    pid = p["id"]
    mod = os.path.join(VERIF, "vf", "props", pid.lower() + ".py")
    if os.path.exists(mod) and pid in T:
        cat, tech, text, note, ref = T[pid]
        checks.append(dict(property_id=pid, quick_cmd="./check %s quick" % pid, thorough_cmd="./check %s thorough" % pid,
                           evidence_file="evidence/%s.json" % pid, replay_cmd_template="./check %s --replay {path}" % pid,
                           engine="vf", level_claimed=dict(category=cat, text=text, design_ref="DESIGN.md section " + ref),
                           level_note=note, technique=tech))
    else:
        na.append(dict(property_id=pid, reason="check not built yet (framework under construction); the technique applies, see DESIGN.md"))

m = dict(version=1,
         setup_cmd="/venv/bin/python -m pip install -q --no-index --find-links /opt/veriftools/wheels --target /verif/.deps icontract || true",
         hooks=dict(guard="DFOLS_VERIF",
                    enable="no source hooks: every monitor is attached from the harness at run time (module-binding patches, icontract contracts, recording wrappers); the guard name is reserved",
                    baseline_off_cmd="cd /repo && /venv/bin/python -m pytest -ra -q -p no:cacheprovider --timeout=900 --continue-on-collection-errors",
                    source_commits=[], add_only=True),
         engines=[dict(name="vf", path="vf/", serves_properties=[c["property_id"] for c in checks],
                       kind_free_text="runtime monitoring harness: boundary recorders, log tap, rebinding-safe patching, icontract contracts, reference models, fault injection, sharded driver")],
         checks=checks,
         notes="Runtime monitoring only (no compiled code, threads or shared state in dfols: compiler sanitizers / race detectors have no target). ./check <id> <quick|thorough> [--replay PATH]; exit 0 held, 1 violation, 2 inconclusive. Known findings: KNOWN_FINDINGS.txt. Seeded mutants: seeded/.",
         not_applicable=na)
json.dump(m, open(os.path.join(VERIF, "MANIFEST.json"), "w"), indent=1)
print("checks:", [c["property_id"] for c in checks], "not yet:", [n["property_id"] for n in na])

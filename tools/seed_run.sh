#!/bin/bash
# seed_run.sh <patch.diff> <check ids...>   : apply patch to /repo, run quick checks, undo. Prints exit codes.
P=$1; shift
cd /repo && git diff --quiet || { echo "/repo not clean"; exit 9; }
git -C /repo apply $P || exit 9
for c in "$@"; do
  out=$(cd /verif && VERIF_NOEVIDENCE=1 ./check $c ${TIER:-quick} 2>&1 | grep -E "VIOLATION|INCONCLUSIVE| -> " | cut -c1-330 | head -${LINES_MAX:-4})
  echo "== $c: $out"
done
git -C /repo checkout -- .
find /repo -name __pycache__ -prune -exec rm -rf {} + 2>/dev/null

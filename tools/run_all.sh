#!/bin/bash
# run_all.sh [quick|thorough] [ids...] : runs the checks sequentially, prints one summary line each
cd "$(dirname "$0")/.."
T=${1:-quick}; shift
IDS=${@:-C01 C02 C03 C04 C05 C06 C07 C08 C09 C10 C11 C12 C13 C14 C15 C16 C17 C18 C19 C20}
rc=0
for c in $IDS; do
  out=$(./check $c $T 2>&1); e=$?
  echo "$out" | grep -E "VIOLATION|INCONCLUSIVE" | cut -c1-300 | head -5
  echo "$out" | grep -E " -> " | tail -1 | sed "s/^/[exit $e] /"
  [ $e -ne 0 ] && rc=1
done
exit $rc

#!/usr/bin/env python3
"""seed_matrix.py [ids...] - re-confirm every kept seeded change against the CURRENT /repo HEAD in a scratch worktree
(patch applies, 118 repo tests pass with it, demo fails with it and passes without it) and run the owning property's quick
check against the patched scratch tree (DFOLS_VERIF_REPO redirect; /repo itself is not touched). Results go to
seeded/<id>/meta.json ('final_verification') and seeded/MATRIX.md."""
import json, os, subprocess, sys, glob, shutil, time

VERIF = os.path.dirname(os.path.dirname(os.path.abspath(__file__)))
WT = os.environ.get("SEEDCHK_WT", "/tmp/seedchk_wt")
PY = "/venv/bin/python"


def sh(cmd, **kw):
    return subprocess.run(cmd, shell=True, capture_output=True, text=True, **kw)


def table():
    head = sh("git -C /repo rev-parse --short HEAD").stdout.strip()
    with open(os.path.join(VERIF, "seeded", "MATRIX.md"), "w") as f:
        f.write("# Seeded changes versus checks (each re-confirmed in a scratch worktree; see meta.json 'final_verification')\n\n")
        f.write("| seed | property | confirmed at HEAD | still breaks the property | quick check exit | detected | first witness |\n|---|---|---|---|---|---|---|\n")
        for d in sorted(glob.glob(os.path.join(VERIF, "seeded", "C*"))):
            m = json.load(open(os.path.join(d, "meta.json")))
            fv = m.get("final_verification", {})
            f.write("| %s | %s | %s | %s | %s | %s | %s |\n" % (m["id"], m["breaks_property"], fv.get("repo_head"), fv.get("still_a_valid_seed"),
                                                           fv.get("check_exit"), fv.get("detected"), (fv.get("first_violation") or "").replace("|", "/")[:150]))
    print(open(os.path.join(VERIF, "seeded", "MATRIX.md")).read()[:300])


def main():
    if sys.argv[1:] == ["--table"]:
        table()
        return 0
    ids = sys.argv[1:] or sorted(os.path.basename(d) for d in glob.glob(os.path.join(VERIF, "seeded", "C*")))
    head = sh("git -C /repo rev-parse --short HEAD").stdout.strip()
    sh("git -C /repo worktree remove --force %s" % WT)
    r = sh("git -C /repo worktree add --detach %s HEAD" % WT)
    if r.returncode != 0:
        print(r.stderr)
        return 1
    rows = []
    try:
        for sid in ids:
            d = os.path.join(VERIF, "seeded", sid)
            meta = json.load(open(os.path.join(d, "meta.json")))
            prop = meta["breaks_property"]
            fv = dict(repo_head=head, at=time.strftime("%Y-%m-%d %H:%M"))
            sh("git -C %s checkout -q -- . && git -C %s clean -fdq" % (WT, WT))
            ap = sh("git -C %s apply --check %s/patch.diff" % (WT, d))
            patch = os.path.join(d, "patch.diff")
            if ap.returncode != 0:
                # later repository fixes touch neighbouring lines: try a 3-way merge and keep the re-based patch beside the original
                ap3 = sh("git -C %s apply --3way %s/patch.diff" % (WT, d))
                if ap3.returncode == 0:
                    sh("git -C %s reset -q" % WT)
                    open(os.path.join(d, "patch.rebased.diff"), "w").write(sh("git -C %s diff" % WT).stdout)
                    patch = os.path.join(d, "patch.rebased.diff")
                    fv["rebased_3way"] = True
                    ap = ap3
                sh("git -C %s reset -q --hard && git -C %s clean -fdq" % (WT, WT))
            elif os.path.exists(os.path.join(d, "patch.rebased.diff")):
                pass
            fv["patch_applies"] = ap.returncode == 0
            if ap.returncode == 0:
                env = dict(os.environ, PYTHONPATH=WT, PYTHONDONTWRITEBYTECODE="1")
                base = subprocess.run([PY, os.path.join(d, "demo.py")], cwd=WT, env=env, capture_output=True, text=True, timeout=300)
                sh("git -C %s apply %s" % (WT, patch))
                t = subprocess.run([PY, "-m", "pytest", "-q", "-p", "no:cacheprovider", "dfols/tests"], cwd=WT, env=env, capture_output=True, text=True, timeout=900)
                fv["repo_tests_with_patch"] = (t.stdout.strip().splitlines() or ["?"])[-1]
                mut = subprocess.run([PY, os.path.join(d, "demo.py")], cwd=WT, env=env, capture_output=True, text=True, timeout=300)
                fv["demo_without_patch_exit"] = base.returncode
                fv["demo_with_patch_exit"] = mut.returncode
                fv["still_a_valid_seed"] = bool(base.returncode == 0 and mut.returncode != 0 and "118 passed" in fv["repo_tests_with_patch"])
                env2 = dict(os.environ, DFOLS_VERIF_REPO=WT, VERIF_NOEVIDENCE="1", VERIF_FAST_FAIL="1")
                c = subprocess.run([os.path.join(VERIF, "check"), prop, "quick"], cwd=VERIF, env=env2, capture_output=True, text=True, timeout=3600)
                lines = [l for l in c.stdout.splitlines() if l.startswith("VIOLATION")]
                fv["check_exit"] = c.returncode
                fv["violation_lines"] = len(lines)
                fv["first_violation"] = (lines[0].split("#", 1)[1].strip()[:260] if lines and "#" in lines[0] else (lines[0][:260] if lines else None))
                fv["summary"] = next((l for l in c.stdout.splitlines() if " -> " in l), "")[:200]
                fv["detected"] = bool(c.returncode == 1 and lines)
            meta["final_verification"] = fv
            json.dump(meta, open(os.path.join(d, "meta.json"), "w"), indent=1)
            rows.append((sid, prop, fv))
            print(sid, fv.get("still_a_valid_seed"), fv.get("detected"), fv.get("first_violation"), flush=True)
    finally:
        sh("git -C /repo worktree remove --force %s" % WT)
        shutil.rmtree(WT, ignore_errors=True)
    if not sys.argv[1:]:
        with open(os.path.join(VERIF, "seeded", "MATRIX.md"), "w") as f:
            f.write("# Seeded changes versus checks (re-confirmed against /repo HEAD %s)\n\n" % head)
            f.write("| seed | property | still breaks the property on this HEAD | quick check exit | detected | first witness |\n|---|---|---|---|---|---|\n")
            for sid, prop, fv in rows:
                f.write("| %s | %s | %s | %s | %s | %s |\n" % (sid, prop, fv.get("still_a_valid_seed"), fv.get("check_exit"), fv.get("detected"),
                                                          (fv.get("first_violation") or "").replace("|", "/")[:160]))
    return 0


if __name__ == "__main__":
    sys.exit(main())

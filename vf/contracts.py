"""Runtime contracts (icontract post-conditions with named condition functions and explicit error classes) for the
numerical routines of dfols. Conditions *record*: they count their evaluations and append structured witnesses to the
current monitoring context. Driven directly (STRICT) a failed condition returns False and PostBroken ends the call;
in situ (not STRICT) it returns True, the solver run continues unchanged and the harness turns the recorded witnesses
into the verdict afterwards - a contract never alters the run it observes.
"""
import collections
import numpy as np
from . import engine

try:
    import icontract
    HAVE_ICONTRACT = True
except Exception:      # pragma: no cover - wheelhouse missing: minimal stand-in with the same ensure/snapshot semantics
    HAVE_ICONTRACT = False

    class _OLD(object):
        pass

    class icontract(object):
        @staticmethod
        def ensure(cond, error=AssertionError):
            def deco(f):
                import inspect
                names = list(inspect.signature(cond).parameters)
                sig = inspect.signature(getattr(f, "__orig__", f))

                def w(*a, **k):
                    ba = sig.bind(*a, **k)
                    ba.apply_defaults()
                    old = _OLD()
                    for (nm, fn, argn) in getattr(w, "__snaps__", []):
                        setattr(old, nm, fn(*[ba.arguments[x] for x in argn]))
                    res = f(*a, **k)
                    kw = {}
                    for nm in names:
                        kw[nm] = res if nm == "result" else (old if nm == "OLD" else ba.arguments[nm])
                    if not cond(**kw):
                        raise error("postcondition %s failed" % cond.__name__)
                    return res
                w.__orig__ = getattr(f, "__orig__", f)
                w.__snaps__ = []
                return w
            return deco

        @staticmethod
        def snapshot(fn, name=None):
            def deco(w):
                import inspect
                w.__snaps__.append((name, fn, list(inspect.signature(fn).parameters)))
                return w
            return deco

EPS = np.finfo(float).eps
STRICT = False
COUNTS = collections.Counter()     # evaluations per contract (zero evaluations => inconclusive)
FAILS = []                         # witnesses (bounded)


class PostBroken(AssertionError):
    pass


def rec(kind, ok, msg="", **w):
    COUNTS[kind] += 1
    if not ok:
        COUNTS["FAIL:" + kind] += 1
        if len(FAILS) < 40:
            FAILS.append(dict(kind=kind, msg=msg, witness=engine.jsonable(w)))
        if engine.CTX is not None:
            engine.CTX.witness(kind, msg=msg, **w)
    return bool(ok) or not STRICT


def drain():
    out = list(FAILS)
    del FAILS[:]
    return out


def qval(g, H, d):
    return float(g @ d + 0.5 * d @ (H @ d))


# ---------------------------------------------------------------------------
# C12: trsbox
# ---------------------------------------------------------------------------
def cauchy_value(xopt, g, H, sl, su, delta, with_t=False):
    """Model value at the steepest-descent step truncated at the first bound or the trust-region boundary
    (exact line minimum along the projected steepest-descent direction). Independent of the routine under test."""
    s = -g.copy()
    s[(xopt <= sl) & (g >= 0)] = 0.0
    s[(xopt >= su) & (g <= 0)] = 0.0
    ns = np.linalg.norm(s)
    if not ns > 0:
        return (0.0, np.inf) if with_t else 0.0
    tmax = delta / ns
    for j in range(len(s)):
        if s[j] > 0:
            tmax = min(tmax, (su[j] - xopt[j]) / s[j])
        elif s[j] < 0:
            tmax = min(tmax, (sl[j] - xopt[j]) / s[j])
    tmax = max(tmax, 0.0)
    shs = float(s @ (H @ s))
    t = tmax if shs <= 0 else min(tmax, float(s @ s) / shs)
    return (qval(g, H, t * s), t) if with_t else qval(g, H, t * s)


def _copy(a):
    return np.array(a, copy=True)


def snap_trsbox(xopt, g, H, sl, su):
    return (_copy(xopt), _copy(g), _copy(H), _copy(sl), _copy(su))


def trsbox_post(xopt, g, H, sl, su, delta, result, OLD):
    x0, g0, H0, sl0, su0 = OLD.args0
    d, gnew, crvmin = result
    ok = True
    if not (np.array_equal(x0, xopt) and np.array_equal(g0, g) and np.array_equal(H0, H) and np.array_equal(sl0, sl)
            and np.array_equal(su0, su)):
        ok &= rec("trsbox.args-not-mutated", False, "an argument array was modified in place")
    else:
        rec("trsbox.args-not-mutated", True)
    if not (np.all(np.isfinite(g0)) and np.all(np.isfinite(H0))):
        COUNTS["trsbox.skipped-nonfinite-input"] += 1
        return ok or not STRICT
    if not np.all(np.isfinite(d)):
        return rec("trsbox.finite-step", False, "non-finite step for finite input", d=d) and ok
    n = len(d)
    dinf = float(np.max(np.abs(d))) if n else 0.0
    xinf = float(np.max(np.abs(x0))) if n else 0.0
    eps_x = 8 * EPS * max(xinf, dinf)
    g1 = float(np.sum(np.abs(g0)))
    H1 = float(np.max(np.sum(np.abs(H0), axis=0))) if n else 0.0
    Hinf = float(np.max(np.sum(np.abs(H0), axis=1))) if n else 0.0
    slack = eps_x * (g1 + H1 * max(dinf, eps_x))
    scale = float(np.abs(g0) @ np.abs(d) + 0.5 * np.abs(d) @ (np.abs(H0) @ np.abs(d)))
    xn = x0 + d
    ulp = 2 * EPS * np.maximum(np.abs(x0), np.maximum(np.where(np.abs(sl0) < 1e19, np.abs(sl0), 0), np.where(np.abs(su0) < 1e19, np.abs(su0), 0)))
    below, above = sl0 - xn, xn - su0
    okbox = bool(np.all(below <= ulp) and np.all(above <= ulp))
    ok &= rec("trsbox.box", okbox, "step leaves the box by %.3g" % float(max(np.max(below), np.max(above))),
              xopt=x0, d=d, sl=sl0, su=su0)
    nd = float(np.linalg.norm(d))
    # the step is returned as clip(xopt+d)-xopt, i.e. quantised to ulp(xopt) per component
    ok &= rec("trsbox.ball", nd <= delta * (1 + 1e-8) + 8 * EPS * xinf * np.sqrt(n), "||d||/delta - 1 = %.3g" % (nd / delta - 1),
              d=d, delta=delta, xopt=x0, g=g0, H=H0, sl=sl0, su=su0)
    qd = qval(g0, H0, d)
    ok &= rec("trsbox.no-increase", qd <= 1e-12 * scale + slack, "q(d) = %.3g > 0" % qd, q=qd, d=d, g=g0, H=H0, delta=delta,
              xopt=x0, sl=sl0, su=su0)
    qc, tc = cauchy_value(x0, g0, H0, sl0, su0, delta, with_t=True)
    if tc <= 1e-28:
        # precondition: the routine's documented underflow guard (DFBOLS: "if stplen <= 1.0e-30: quit") returns the zero
        # step when the steepest-descent steplength itself is below 1e-30 (|g| or |H| astronomically larger than delta)
        COUNTS["trsbox.cauchy-skipped-steplength-below-1e-28"] += 1
    else:
        ok &= rec("trsbox.cauchy-decrease", qd <= qc + 1e-10 * abs(qc) + 1e-14 * scale + slack,
                  "q(d) = %.6g worse than truncated steepest descent %.6g" % (qd, qc), q=qd, qc=qc, d=d, g=g0, H=H0,
                  delta=delta, xopt=x0, sl=sl0, su=su0)
    gn = g0 + H0 @ d
    gtol = 1e-8 * (float(np.max(np.abs(g0))) + float(np.max(np.abs(H0))) * dinf + 1e-300) + Hinf * eps_x
    err = float(np.max(np.abs(gn - gnew))) if n else 0.0
    ok &= rec("trsbox.gnew", err <= gtol, "|gnew - (g+Hd)| = %.3g > %.3g" % (err, gtol), gnew=gnew, want=gn, d=d, g=g0, H=H0,
              delta=delta, xopt=x0, sl=sl0, su=su0)
    return ok or not STRICT


# ---------------------------------------------------------------------------
# C13: geometry step (box) - exact optimum by bisection along the clipped ray
# ---------------------------------------------------------------------------
def min_linear_box_ball(g, a, b, Delta):
    """min g's s.t. a <= s <= b (a <= 0 <= b), ||s|| <= Delta. The minimiser is s(t) = clip(-t g, a, b) for the
    largest admissible t (||s(t)|| is monotone in t): bisection, 200 halvings. Returns the optimal value."""
    g = np.asarray(g, dtype=float)

    def s_of(t):
        with np.errstate(all="ignore"):
            return np.where(g == 0, 0.0, np.clip(-t * g, a, b))
    # corner reached as t -> infinity
    s_inf = np.where(g > 0, a, np.where(g < 0, b, 0.0))
    s_inf = np.where(np.isfinite(s_inf), s_inf, np.sign(s_inf) * 1e300)
    if np.linalg.norm(s_inf) <= Delta:
        return float(g @ s_inf)
    lo_t, hi_t = 0.0, 1.0
    while np.linalg.norm(s_of(hi_t)) < Delta and hi_t < 1e300:
        hi_t *= 2.0
    for _ in range(200):
        mid = 0.5 * (lo_t + hi_t)
        if np.linalg.norm(s_of(mid)) <= Delta:
            lo_t = mid
        else:
            hi_t = mid
    return float(g @ s_of(lo_t))


def snap_geom(xbase, g, lower, upper):
    return (_copy(xbase), _copy(g), _copy(lower), _copy(upper))


def trsbox_geometry_post(xbase, c, g, lower, upper, Delta, result, OLD):
    xb, g0, lo, hi = OLD.args0
    x = result
    ok = True
    same = np.array_equal(xb, xbase) and np.array_equal(g0, g) and np.array_equal(lo, lower) and np.array_equal(hi, upper)
    ok &= rec("geom.args-not-mutated", same, "an argument array was modified in place")
    if not (np.all(np.isfinite(g0)) and np.isfinite(c)):
        COUNTS["geom.skipped-nonfinite-input"] += 1
        return ok or not STRICT
    s = x - xb
    n = len(s)
    tolb = 1e-12 * max(1.0, float(np.max(np.abs(xb))) if n else 0.0, Delta)
    viol = float(max(np.max(lo - x), np.max(x - hi))) if n else 0.0
    ok &= rec("geom.box", viol <= tolb, "geometry step outside the box by %.3g" % viol, x=x, lower=lo, upper=hi, xbase=xb)
    ns = float(np.linalg.norm(s))
    ok &= rec("geom.ball", ns <= Delta * (1 + 1e-8) + 8 * EPS * (float(np.max(np.abs(xb))) if n else 0.0),
              "||s||/Delta - 1 = %.3g" % (ns / Delta - 1), s=s, Delta=Delta)
    a = np.minimum(lo - xb, 0.0)
    b = np.maximum(hi - xb, 0.0)
    vmin = min_linear_box_ball(g0, a, b, Delta)
    vmax = -min_linear_box_ball(-g0, a, b, Delta)
    opt = max(abs(c + vmin), abs(c + vmax))
    got = abs(c + float(g0 @ s))
    floor = n * 1e-14 * Delta + 1e-14 * (abs(c) + float(np.sum(np.abs(g0))) * Delta)   # ZERO_THRESH: |g_i| < 1e-14 is ignored by design
    ok &= rec("geom.global-max", got >= opt * (1 - 1e-6) - floor, "|c+g's| = %.9g but the maximum over box and ball is %.9g" % (got, opt),
              got=got, opt=opt, c=c, g=g0, lower=lo, upper=hi, xbase=xb, Delta=Delta)
    ok &= rec("geom.not-worse-than-staying", got >= abs(c) * (1 - 1e-12) - floor, "|c+g's| = %.6g < |c| = %.6g" % (got, abs(c)))
    return ok or not STRICT


def step_norm_post_factory(name):
    def post(xopt, g, H, delta, result):
        d = result[0] if isinstance(result, tuple) else result
        if not np.all(np.isfinite(d)):
            if not (np.all(np.isfinite(g)) and np.all(np.isfinite(H)) and np.all(np.isfinite(xopt)) and np.isfinite(delta)):
                COUNTS[name + ".skipped-nonfinite-input"] += 1     # garbage in (fault-injected runs): nothing is promised
                return True
            return rec(name + ".ball", False, "%s: non-finite step %r from finite inputs (|g|=%.3g, |H|=%.3g, Delta=%.3g)" % (
                name, d, float(np.linalg.norm(g)), float(np.linalg.norm(H)), delta), d=d, delta=delta, xopt=xopt, g=g, H=H)
        nd = float(np.linalg.norm(d))
        return rec(name + ".ball", nd <= delta * (1 + 1e-8) + 8 * EPS * float(np.linalg.norm(xopt)),
                   "%s: ||d||/Delta - 1 = %.3g (Delta=%.3g)" % (name, nd / delta - 1, delta), d=d, delta=delta, xopt=xopt)
    return post


ctrsbox_pgd_post = step_norm_post_factory("ctrsbox_pgd")
ctrsbox_sfista_post = step_norm_post_factory("ctrsbox_sfista")


def ctrsbox_geometry_post(xbase, c, g, Delta, result):
    d = result
    if not np.all(np.isfinite(d)):
        if not (np.isfinite(c) and np.all(np.isfinite(g)) and np.all(np.isfinite(xbase)) and np.isfinite(Delta)):
            COUNTS["ctrsbox_geometry.skipped-nonfinite-input"] += 1
            return True
        return rec("ctrsbox_geometry.ball", False, "ctrsbox_geometry: non-finite step %r from finite inputs (c=%.3g, |g|=%.3g, Delta=%.3g)" % (
            d, c, float(np.linalg.norm(g)), Delta), d=d, Delta=Delta, xbase=xbase)
    nd = float(np.linalg.norm(d))
    return rec("ctrsbox_geometry.ball", nd <= Delta * (1 + 1e-8) + 8 * EPS * float(np.linalg.norm(xbase)),
               "ctrsbox_geometry: ||d||/Delta - 1 = %.3g" % (nd / Delta - 1), d=d, Delta=Delta, xbase=xbase)


# ---------------------------------------------------------------------------
# decorating
# ---------------------------------------------------------------------------
def decorate(orig, post, snap=None):
    f = icontract.ensure(post, error=PostBroken)(orig)
    if snap is not None:
        f = icontract.snapshot(snap, name="args0")(f)
    return f


SPECS = {
    "trsbox": (trsbox_post, snap_trsbox),
    "trsbox_geometry": (trsbox_geometry_post, snap_geom),
    "ctrsbox_pgd": (ctrsbox_pgd_post, None),
    "ctrsbox_sfista": (ctrsbox_sfista_post, None),
    "ctrsbox_geometry": (ctrsbox_geometry_post, None),
}


def contracted(name):
    """The real function 'name' from dfols.trust_region wrapped in its contract (for direct driving)."""
    import dfols.trust_region as tr
    orig = engine.ORIGINALS.get(name) or getattr(tr, name)
    post, snap = SPECS[name]
    return decorate(orig, post, snap)


def install_insitu(names):
    """Attach the contracts to every binding of the named routines in all dfols modules."""
    import dfols.trust_region as tr
    out = {}
    for name in names:
        post, snap = SPECS[name]
        out[name] = engine.instrument_function(name, lambda orig, post=post, snap=snap: decorate(orig, post, snap), home=tr)
        engine.BINDINGS[name] = out[name]
    return out

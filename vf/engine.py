"""Shared machinery: tree under test, monitoring context, rebinding-safe patching,
boundary recorders, log tap, watchdogs, and the monitored ``run_solve``.

Nothing in here edits the repository: every monitor is attached from the
harness at run time.
"""
import os
for _v in ("OMP_NUM_THREADS", "OPENBLAS_NUM_THREADS", "MKL_NUM_THREADS", "NUMEXPR_NUM_THREADS"):
    os.environ[_v] = "1"
os.environ.setdefault("PYTHONDONTWRITEBYTECODE", "1")

import sys, json, time, signal, hashlib, logging, re, warnings, traceback, functools, types, math

sys.dont_write_bytecode = True

VERIF = os.path.dirname(os.path.dirname(os.path.abspath(__file__)))
REPO = os.path.abspath(os.environ.get("DFOLS_VERIF_REPO", "/repo"))
if REPO not in sys.path[:1]:
    sys.path.insert(0, REPO)
_deps = os.path.join(VERIF, ".deps")
if os.path.isdir(_deps) and _deps not in sys.path:
    sys.path.insert(1, _deps)

import numpy as np

# ---------------------------------------------------------------------------
# optional line-coverage probe (VERIF_LINECOV=<dir>): which statements of dfols/*.py did the workload of this process execute?
# sys.monitoring LINE events with DISABLE after the first hit: each location costs one callback, so the probe is free. It is a
# coverage audit of the WORKLOAD (tools/linecov.py lists the statements no check ever reached), never a verdict.
# ---------------------------------------------------------------------------
_LINECOV_DIR = os.environ.get("VERIF_LINECOV")
_LINES_HIT = set()
if _LINECOV_DIR and hasattr(sys, "monitoring"):
    _TOOL = 4
    _pref = os.path.join(REPO, "dfols") + os.sep

    def _on_line(code, lineno):
        fn = code.co_filename
        if fn.startswith(_pref) and os.sep + "tests" + os.sep not in fn:
            _LINES_HIT.add((os.path.basename(fn), lineno))
        return sys.monitoring.DISABLE
    try:
        sys.monitoring.use_tool_id(_TOOL, "vf-linecov")
        sys.monitoring.register_callback(_TOOL, sys.monitoring.events.LINE, _on_line)
        sys.monitoring.set_events(_TOOL, sys.monitoring.events.LINE)
        import atexit

        def _dump_lines():
            os.makedirs(_LINECOV_DIR, exist_ok=True)
            with open(os.path.join(_LINECOV_DIR, "lines-%d.json" % os.getpid()), "w") as f:
                json.dump(sorted(_LINES_HIT), f)
        atexit.register(_dump_lines)
    except Exception:
        pass

import dfols  # noqa: E402  (must come from REPO's working tree)
import dfols.solver, dfols.controller, dfols.model, dfols.util, dfols.trust_region, dfols.params, dfols.diagnostic_info  # noqa

if not os.path.abspath(dfols.__file__).startswith(REPO + os.sep):
    raise SystemExit("HARNESS ERROR: dfols imported from %s, expected under %s" % (dfols.__file__, REPO))

DFOLS_MODULES = [dfols, dfols.solver, dfols.controller, dfols.model, dfols.util, dfols.trust_region,
                 dfols.params, dfols.diagnostic_info]


def tree_sha256():
    h = hashlib.sha256()
    d = os.path.join(REPO, "dfols")
    for fn in sorted(os.listdir(d)):
        if fn.endswith(".py"):
            h.update(fn.encode())
            with open(os.path.join(d, fn), "rb") as f:
                h.update(f.read())
    return h.hexdigest()


# ---------------------------------------------------------------------------
# exceptions that nothing inside dfols can swallow
# ---------------------------------------------------------------------------
class Livelock(BaseException):
    """More than LIVELOCK_LIMIT main-loop iterations without a call to objfun."""


class CaseTimeout(BaseException):
    """Watchdog (CPU-time budget, wall-clock backstop) fired (inconclusive, never a violation)."""


class InjectedFault(Exception):
    """Raised from inside the objective by a fault plan (kind 'raise')."""


LIVELOCK_LIMIT = 10000


def _alarm_handler(signum, frame):
    raise CaseTimeout()


signal.signal(signal.SIGALRM, _alarm_handler)
signal.signal(signal.SIGPROF, _alarm_handler)
_DEADLINES = []
WALL_FACTOR = 20.0   # wall-clock backstop for a deadline stated in CPU seconds


def _rearm():
    if _DEADLINES:
        signal.setitimer(signal.ITIMER_PROF, max(0.01, min(d[0] for d in _DEADLINES) - time.process_time()))
        signal.setitimer(signal.ITIMER_REAL, max(0.01, min(d[1] for d in _DEADLINES) - time.time()))
    else:
        signal.setitimer(signal.ITIMER_PROF, 0)
        signal.setitimer(signal.ITIMER_REAL, 0)


class alarm(object):
    """Nestable watchdog (innermost deadline wins; outer one re-armed on exit). The deadline is stated in CPU seconds of this
    process (ITIMER_PROF), so that a loaded machine does not turn slow cases into watchdog firings; a wall-clock backstop at
    WALL_FACTOR times the budget catches anything that blocks without computing."""

    def __init__(self, seconds):
        self.seconds = float(max(0.05, seconds))

    def __enter__(self):
        self.deadline = (time.process_time() + self.seconds, time.time() + WALL_FACTOR * self.seconds)
        _DEADLINES.append(self.deadline)
        _rearm()

    def __exit__(self, *a):
        try:
            _DEADLINES.remove(self.deadline)
        except ValueError:
            pass
        _rearm()
        return False


# ---------------------------------------------------------------------------
# JSON helpers
# ---------------------------------------------------------------------------
def jsonable(o, depth=0):
    if depth > 12:
        return repr(o)
    if o is None or isinstance(o, (bool, int, str)):
        return o
    if isinstance(o, float):
        if math.isnan(o):
            return "NaN"
        if math.isinf(o):
            return "inf" if o > 0 else "-inf"
        return o
    if isinstance(o, (np.bool_,)):
        return bool(o)
    if isinstance(o, np.integer):
        return int(o)
    if isinstance(o, np.floating):
        return jsonable(float(o))
    if isinstance(o, np.ndarray):
        return jsonable(o.tolist(), depth + 1)
    if isinstance(o, dict):
        return {str(k): jsonable(v, depth + 1) for k, v in o.items()}
    if isinstance(o, (list, tuple, set, frozenset)):
        return [jsonable(v, depth + 1) for v in o]
    if isinstance(o, BaseException):
        return "%s: %s" % (type(o).__name__, o)
    return repr(o)


def short(o, n=12):
    """Abbreviated JSON form of arrays for evidence samples."""
    if isinstance(o, np.ndarray):
        flat = o.ravel()
        if flat.size > n:
            return {"shape": list(o.shape), "head": jsonable(flat[:n])}
        return jsonable(o)
    return jsonable(o)


# ---------------------------------------------------------------------------
# monitoring context
# ---------------------------------------------------------------------------
class Ctx(object):
    """Everything the monitors observed during one monitored call."""

    def __init__(self):
        self.calls = []            # objfun calls: dict(k, x, r, exc, t)
        self.evalpairs = []        # (eval number, point number) parsed from the log
        self.loglines = 0
        self.exits = []            # (flag, msg, site) for every ExitInformation created
        self.controllers = []      # every Controller constructed
        self.solve_main = []       # dict(args..., ret...) per solve_main call
        self.soft_restarts = []    # (caller line, returned None?)
        self.dykstra = []          # logged dykstra calls (filled only if log_dykstra)
        self.iters = 0             # per-iteration hook count
        self.iters_since_eval = 0
        self.iter_hook = None      # callable(model) run before each model fit
        self.witnesses = []        # recorded contract witnesses
        self.counts = {}           # monitor evaluation counters
        self.dykstra_hook = None   # callable(info) for every dykstra call
        self.extra = {}

    def count(self, key, n=1):
        self.counts[key] = self.counts.get(key, 0) + n

    def witness(self, kind, **kw):
        if len(self.witnesses) < 50:
            self.witnesses.append(dict(kind=kind, **kw))
        self.count("witness:" + kind)


CTX = None  # current context (single-threaded by construction)


class monitoring(object):
    def __init__(self, ctx):
        self.ctx = ctx

    def __enter__(self):
        global CTX
        self.prev = CTX
        CTX = self.ctx
        return self.ctx

    def __exit__(self, *a):
        global CTX
        CTX = self.prev
        return False


# ---------------------------------------------------------------------------
# rebinding-safe patching
# ---------------------------------------------------------------------------
_PATCHES = []  # (owner, name, original)
ORIGINALS = {}


def instrument_function(name, make_wrapper, home=None):
    """Replace function ``name`` in every dfols module namespace bound to the original object.

    dfols uses ``from .util import *`` so e.g. ``dykstra`` is bound separately in model, controller,
    solver and trust_region. Returns number of bindings replaced (0 => the monitor cannot fire).
    """
    orig = None
    mods = [home] if home is not None else DFOLS_MODULES
    for mod in mods:
        if hasattr(mod, name):
            orig = getattr(mod, name)
            break
    if orig is None:
        return 0
    if name in ORIGINALS:
        orig = ORIGINALS[name]
    ORIGINALS[name] = orig
    wrapper = make_wrapper(orig)
    wrapper.__wrapped_by_vf__ = True
    n = 0
    for mod in DFOLS_MODULES:
        for attr, val in list(vars(mod).items()):
            if val is orig:
                _PATCHES.append((mod, attr, orig))
                setattr(mod, attr, wrapper)
                n += 1
    return n


def instrument_method(cls, name, make_wrapper):
    key = cls.__name__ + "." + name
    orig = cls.__dict__.get(name)
    if orig is None:
        return 0
    ORIGINALS.setdefault(key, orig)
    wrapper = make_wrapper(orig)
    _PATCHES.append((cls, name, orig))
    setattr(cls, name, wrapper)
    return 1


def remove_all_patches():
    while _PATCHES:
        owner, name, orig = _PATCHES.pop()
        setattr(owner, name, orig)
    ORIGINALS.clear()
    _INSTALLED.clear()


_INSTALLED = set()
BINDINGS = {}   # name -> number of bindings replaced


def install_core_monitors():
    """Patch points every solver check uses (idempotent)."""
    if "core" in _INSTALLED:
        return
    _INSTALLED.add("core")
    from dfols.controller import Controller, ExitInformation
    from dfols.model import Model

    def mk_exit(orig):
        def __init__(self, flag, msg_details):
            orig(self, flag, msg_details)
            if CTX is not None:
                f = sys._getframe(1)
                site = "%s:%d" % (os.path.basename(f.f_code.co_filename), f.f_lineno)
                CTX.exits.append((flag, msg_details, site))
        return __init__
    BINDINGS["ExitInformation.__init__"] = instrument_method(ExitInformation, "__init__", mk_exit)

    def mk_ctrl(orig):
        def __init__(self, *a, **kw):
            orig(self, *a, **kw)
            if CTX is not None:
                CTX.controllers.append(self)
        return __init__
    BINDINGS["Controller.__init__"] = instrument_method(Controller, "__init__", mk_ctrl)

    def mk_soft(orig):
        def soft_restart(self, *a, **kw):
            site = sys._getframe(1).f_lineno
            if CTX is not None:
                CTX.extra.setdefault("soft_restart_entry", []).append(
                    dict(site=site, nf=self.nf, rho=self.rho, rhoend=self.rhoend))
            ret = orig(self, *a, **kw)
            if CTX is not None:
                CTX.soft_restarts.append((site, ret is None))
            return ret
        return soft_restart
    BINDINGS["Controller.soft_restart"] = instrument_method(Controller, "soft_restart", mk_soft)

    def mk_interp(orig):
        def interpolate_mini_models_svd(self, *a, **kw):
            c = CTX
            if c is not None:
                c.iters += 1
                c.iters_since_eval += 1
                if c.iters_since_eval > c.extra.get("livelock_limit", LIVELOCK_LIMIT):
                    raise Livelock()
                if c.iter_hook is not None:
                    c.iter_hook(self)
            return orig(self, *a, **kw)
        return interpolate_mini_models_svd
    BINDINGS["Model.interpolate_mini_models_svd"] = instrument_method(Model, "interpolate_mini_models_svd", mk_interp)

    def mk_solve_main(orig):
        names = ["objfun", "x0", "argsf", "xl", "xu", "projections", "npt", "rhobeg", "rhoend", "maxfun",
                 "nruns_so_far", "nf_so_far", "nx_so_far"]

        def solve_main(*a, **kw):
            c = CTX
            rec = None
            if c is not None:
                rec = {n: a[i] for i, n in enumerate(names) if i < len(a) and n not in ("objfun", "argsf", "projections")}
                rec["x0"] = np.array(rec["x0"], copy=True)
                rec["r0_avg_old"] = kw.get("r0_avg_old") is not None
                rec["ncalls_before"] = len(c.calls)
                rec["ncontrollers_before"] = len(c.controllers)
                c.solve_main.append(rec)
            ret = orig(*a, **kw)
            if rec is not None:
                rec["ret"] = dict(x=ret[0], r=ret[1], obj=ret[2], jac=ret[3], nsamples=ret[4], nf=ret[5], nx=ret[6],
                                  nruns=ret[7], exit=(ret[8].flag, ret[8].msg), xmin_eval_num=ret[10],
                                  jac_eval_nums=ret[11])
            return ret
        return solve_main
    BINDINGS["solve_main"] = instrument_function("solve_main", mk_solve_main, home=dfols.solver)


def install_failpoints():
    """Source-free failpoints: Model.lagrange_gradient raises LinAlgError at its j-th call when CTX.extra['lagrange_fail_at'] == j.
    (the exception type every caller in controller.py catches and turns into a linear-algebra exit / soft restart)"""
    if "failpoints" in _INSTALLED:
        return
    _INSTALLED.add("failpoints")
    from dfols.model import Model

    def mk(orig):
        def lagrange_gradient(self, *a, **kw):
            c = CTX
            if c is not None:
                c.extra["lagrange_calls"] = c.extra.get("lagrange_calls", 0) + 1
                if c.extra.get("lagrange_fail_at") == c.extra["lagrange_calls"]:
                    c.extra["lagrange_failed_from"] = sys._getframe(1).f_code.co_name
                    raise np.linalg.LinAlgError("injected by failpoint at call %d" % c.extra["lagrange_calls"])
            return orig(self, *a, **kw)
        return lagrange_gradient
    BINDINGS["Model.lagrange_gradient"] = instrument_method(Model, "lagrange_gradient", mk)

    # second failpoint: the j-th acceptance test (Controller.calculate_ratio) is told that the model INCREASES along the
    # step (the value model_value returns there is replaced by +|v|+tiny). This is what rounding in a trust-region solver
    # produces occasionally in the wild (151 natural occurrences in a quick pass, against ~40,000 iterations); the failpoint
    # puts that exit - abandon the trial point, soft restart or quit with flag -2 / 5 - at any iteration we choose.
    # Only controller's own binding of model_value is replaced, and it only acts when called from calculate_ratio.
    import dfols.controller as dc
    orig_mv = dc.model_value

    def model_value(*a, **kw):
        v = orig_mv(*a, **kw)
        c = CTX
        if c is not None and sys._getframe(1).f_code.co_name == "calculate_ratio":
            c.extra["ratio_calls"] = c.extra.get("ratio_calls", 0) + 1
            if c.extra.get("tr_increase_at") == c.extra["ratio_calls"]:
                c.extra["tr_increase_fired"] = c.extra.get("tr_increase_fired", 0) + 1
                if len(a) > 3 or kw.get("h") is not None:
                    # regularised form: pred = h(x) - model_value(...): a value above h(x) makes it negative
                    return float(abs(v)) + 1e6
                return float(abs(v)) + 1e-8
        return v
    _PATCHES.append((dc, "model_value", orig_mv))
    dc.model_value = model_value
    BINDINGS["controller.model_value"] = 1


def apply_failpoint(ctx, fp):
    """fp = {'name': 'lagrange' | 'tr_increase', 'at': j} (part of a cfg, so replays carry it)."""
    if not fp:
        return
    install_failpoints()
    key = {"lagrange": "lagrange_fail_at", "tr_increase": "tr_increase_at"}[fp["name"]]
    ctx.extra[key] = int(fp["at"])


def install_dykstra_logger():
    """Observe every call of dykstra (all bindings): projector calls are counted through per-call wrappers
    (sweeps = calls / p) and the call is handed to ``CTX.dykstra_hook`` (the property decides what to keep)."""
    if "dykstra" in _INSTALLED:
        return
    _INSTALLED.add("dykstra")

    def mk(orig):
        import inspect
        sig = inspect.signature(orig)

        def dykstra(*a, **kw):
            # transparent: arguments are passed on exactly as received (positionally / by keyword), so a caller/signature
            # mismatch in the code under test is not repaired by the wrapper; what each parameter received is read by binding
            c = CTX
            if c is None or c.dykstra_hook is None:
                return orig(*a, **kw)
            ba = sig.bind(*a, **kw)
            ba.apply_defaults()
            P = ba.arguments.get("P")
            ncalls = [0]

            def wrap(p):
                def q(w):
                    ncalls[0] += 1
                    return p(w)
                return q
            P2 = [wrap(p) for p in P]
            if "P" in kw:
                kw2 = dict(kw, P=P2)
                out = orig(*a, **kw2)
            else:
                out = orig(P2, *a[1:], **kw)
            p = len(P)
            f = sys._getframe(1)
            # a caller that OMITS tol / max_iter asks for the documented defaults (1e-10, 100 - those of dykstra.d_tol / dykstra.max_iters):
            # what the routine's signature currently says is the thing under test, not the yardstick
            given = sig.bind(*a, **kw).arguments
            tol_eff = ba.arguments.get("tol") if "tol" in given else 1e-10
            mi_eff = ba.arguments.get("max_iter") if "max_iter" in given else 100
            c.dykstra_hook(dict(mod=f.f_globals.get("__name__", "?"), line=f.f_lineno, p=p, tol=tol_eff,
                                max_iter=mi_eff, calls=ncalls[0], sweeps=(ncalls[0] // p if p else 0),
                                x0=ba.arguments.get("x0"), out=out, P=P, tol_given=("tol" in given), max_iter_given=("max_iter" in given)))
            return out
        return dykstra
    BINDINGS["dykstra"] = instrument_function("dykstra", mk, home=dfols.util)


# ---------------------------------------------------------------------------
# log tap
# ---------------------------------------------------------------------------
_EVAL_RE = re.compile(r"Function eval (\d+) at point (\d+) has obj = (\S+) at x = ")


class LogTap(logging.Handler):
    def __init__(self):
        logging.Handler.__init__(self, level=logging.INFO)

    def emit(self, record):
        c = CTX
        if c is None:
            return
        c.loglines += 1
        if record.name == "dfols.util":
            try:
                msg = record.getMessage()
            except Exception:
                return
            m = _EVAL_RE.match(msg)
            if m:
                c.evalpairs.append((int(m.group(1)), int(m.group(2)), m.group(3)))
        if c.extra.get("keep_log"):
            try:
                c.extra.setdefault("log", []).append((record.name, record.levelno, record.getMessage()))
            except Exception:
                pass


_TAP = None


def install_log_tap():
    global _TAP
    if _TAP is not None:
        return
    _TAP = LogTap()
    lg = logging.getLogger("dfols")
    lg.handlers[:] = [_TAP]
    lg.propagate = False
    lg.setLevel(logging.INFO)
    logging.getLogger().handlers[:] = [logging.NullHandler()]


# ---------------------------------------------------------------------------
# boundary recorders
# ---------------------------------------------------------------------------
class Recorder(object):
    """Recording wrapper around the user's residual function (client boundary).

    The call event is recorded before invoking, the reply after; a call that raises stays open
    (r is None, exc set). ``faults`` maps call index (1-based) -> kind, or ('from', k) -> kind.
    """

    def __init__(self, fun, ctx, faults=None, persistent_from=None, persistent_kind=None, readonly_x=False):
        self.fun = fun
        self.ctx = ctx
        self.faults = faults or {}
        self.pfrom = persistent_from
        self.pkind = persistent_kind
        self.raised = None
        self.readonly_x = readonly_x

    def __call__(self, x, *args):
        ctx = self.ctx
        k = len(ctx.calls) + 1
        rec = dict(k=k, x=np.array(x, dtype=float, copy=True), r=None, exc=None, args=args, fault=None)
        if ctx.extra.get("record_phase"):
            rec["phase"] = call_phase()
        ctx.calls.append(rec)
        ctx.iters_since_eval = 0
        if ctx.extra.get("synth_pairs"):
            # run without logging and without averaging, opted in by the check: evaluation k is point k (what C02 establishes for
            # logged runs), so the history checks can name points although no log line exists
            ctx.evalpairs.append((k, k, None))
        kind = self.faults.get(k)
        if kind is None and self.pfrom is not None and k >= self.pfrom:
            kind = self.pkind
        try:
            with np.errstate(all="ignore"):
                raw = self.fun(x, *args)
                r = np.asarray(raw, dtype=float)
            if kind is not None:
                rec["fault"] = kind
                r = raw = apply_fault(r, kind, k)
        except BaseException as e:
            rec["exc"] = e
            raise
        rec["r"] = np.array(r, copy=True)
        return raw       # exactly the object the user's function returned (a list, a re-used buffer, a view ...)


_FINAL_CHECK_LINES = None


def _final_check_lines():
    """Line numbers in solver.py of the evaluate_objective call that checks the last step before quitting on rho = rhoend."""
    global _FINAL_CHECK_LINES
    if _FINAL_CHECK_LINES is None:
        _FINAL_CHECK_LINES = set()
        try:
            lines = open(os.path.join(REPO, "dfols", "solver.py")).read().splitlines()
            for i, ln in enumerate(lines):
                if "Cannot reduce rho, so check xnew and quit" in ln:
                    for j in range(i, min(i + 12, len(lines))):
                        if "evaluate_objective(" in lines[j]:
                            _FINAL_CHECK_LINES.update({j + 1, j + 2})
                            break
        except Exception:
            pass
    return _FINAL_CHECK_LINES


def call_phase():
    """Which phase of the algorithm asked for this evaluation (from the Python call chain; no source change)."""
    f = sys._getframe(2)
    names = []
    solver_line = None
    while f is not None and len(names) < 12:
        fn = f.f_code.co_filename
        if os.sep + "dfols" + os.sep in fn:
            names.append(f.f_code.co_name)
            if f.f_code.co_name == "solve_main":
                solver_line = f.f_lineno
        f = f.f_back
    if "soft_restart" in names:
        return "restart"
    if "geometry_step" in names:
        return "geometry"
    if "initialise_coordinate_directions" in names or "initialise_random_directions" in names:
        return "initialisation"
    if "add_new_direction_while_growing" in names or "move_furthest_points_momentum" in names:
        return "extra-step"
    if "evaluate_objective" in names:
        return "final-check" if solver_line in _final_check_lines() else "trial"
    if "solve_main" in names:
        return "x0"
    return "other"


def apply_fault(r, kind, k):
    r = np.array(r, dtype=float, copy=True)
    if kind == "nan":
        r[k % len(r)] = np.nan
    elif kind == "nan_all":
        r[:] = np.nan
    elif kind == "inf":
        r[k % len(r)] = np.inf
    elif kind == "-inf":
        r[k % len(r)] = -np.inf
    elif kind == "1e200":
        r[k % len(r)] = 1e200
    elif kind == "1e120":
        r[k % len(r)] = 1e120
    elif kind == "raise":
        raise InjectedFault("injected at call %d" % k)
    else:
        raise ValueError("unknown fault kind %r" % (kind,))
    return r


class RecordedCallable(object):
    """Generic recorder for h / prox_uh / nsamples / projections."""

    def __init__(self, fun, name, ctx, keep=True, maxkeep=200000):
        self.fun = fun
        self.name = name
        self.ctx = ctx
        self.n = 0
        self.keep = keep
        self.log = []
        self.maxkeep = maxkeep

    def __call__(self, *a):
        self.n += 1
        out = self.fun(*a)
        if self.keep and len(self.log) < self.maxkeep:
            self.log.append((len(self.ctx.calls), a, out))
        return out


# ---------------------------------------------------------------------------
# a monitored call of dfols.solve
# ---------------------------------------------------------------------------
class Run(object):
    """Result of one monitored solve: the context plus soln / exception."""

    def __init__(self, ctx):
        self.ctx = ctx
        self.soln = None
        self.exc = None
        self.tb = None
        self.livelock = False
        self.timeout = False
        self.warnings = []
        self.wall = 0.0


def run_solve(objfun, x0, ctx=None, timeout=60, faults=None, persistent=None, solve_kwargs=None, record_obj=True):
    """Call dfols.solve under recorder, log tap, livelock guard and wall-clock alarm."""
    install_core_monitors()
    install_log_tap()
    if ctx is None:
        ctx = Ctx()
    run = Run(ctx)
    kw = dict(solve_kwargs or {})
    kw.setdefault("do_logging", True)
    rec = Recorder(objfun, ctx, faults=faults,
                   persistent_from=(persistent[0] if persistent else None),
                   persistent_kind=(persistent[1] if persistent else None)) if record_obj else objfun
    run.recorder = rec
    t0 = time.time()
    with monitoring(ctx):
        try:
            with warnings.catch_warnings(record=True) as wlist:
                warnings.simplefilter("always")
                with np.errstate(all="ignore"):
                    with alarm(timeout):
                        run.soln = dfols.solve(rec, x0, **kw)
            run.warnings = [(w.category.__name__, str(w.message)) for w in wlist]
        except Livelock as e:
            run.livelock = True
            run.exc = e
        except CaseTimeout as e:
            run.timeout = True
            run.exc = e
            run.tb = traceback.format_exc()
        except BaseException as e:
            run.exc = e
            run.tb = traceback.format_exc()
    run.wall = time.time() - t0
    return run


def exc_site(exc):
    """Innermost dfols frame (file:function) of an exception's traceback - used to key findings by raise site."""
    tb = exc.__traceback__
    site = None
    while tb is not None:
        fn = tb.tb_frame.f_code.co_filename
        if os.sep + "dfols" + os.sep in fn and os.sep + "tests" + os.sep not in fn:
            site = "%s:%s" % (os.path.basename(fn), tb.tb_frame.f_code.co_name)
        tb = tb.tb_next
    return site


def exc_line(exc):
    tb = exc.__traceback__
    site = None
    while tb is not None:
        fn = tb.tb_frame.f_code.co_filename
        if os.sep + "dfols" + os.sep in fn and os.sep + "tests" + os.sep not in fn:
            site = "%s:%d" % (os.path.basename(fn), tb.tb_lineno)
        tb = tb.tb_next
    return site


def rng_for(seed, prop, case, stream=0):
    return np.random.Generator(np.random.PCG64(np.random.SeedSequence([int(seed), int(prop), int(case), int(stream)])))

"""C13 - geometry and convex-constrained step solvers stay inside their regions."""
import numpy as np
from .. import engine, gen, oracles, contracts, campaign
from ..oracles import V

ID = "C13"
NUM = 13
LEVEL = "exploration"
RULE = ("icontract post-conditions on the real routines: trsbox_geometry (box to 1e-12 rel., ball, GLOBAL maximum of |c+g's| to 1e-6 "
        "against an independent exact solver - bisection along the clipped ray t -> clip(-t g) - and never worse than not moving); "
        "ctrsbox_pgd / ctrsbox_sfista / ctrsbox_geometry (||d|| <= Delta(1+1e-8)); Controller.trust_region_step with a regulariser "
        "(predicted reduction of the step handed back recomputed independently in user coordinates, never negative). Evaluated on "
        "synthetic inputs (c in {0,1,random}, g with zero components, Delta over 5 decades, degenerate/active/infinite sides; 1-4 "
        "balls/half-spaces/boxes containing the centre incl. centre on the boundary and several active half-spaces) and in situ "
        "during bounded / convex-constrained / regularised (incl. scaled) solver runs. Non-trivial = geometry input with >= 1 "
        "active or within-Delta bound, or convex step with >= 1 active set; distinct by input index"
        ' Second session: sampled Dykstra budgets (1..1000 sweeps) / tolerances and S-FISTA knobs in the synthetic convex-step calls; +-inf bound entries in the geometry inputs; shared options (growing with and without safety step, restarts, seldom-used keys) on the in-situ runs.')
ASSUMPTIONS = ["trsbox_geometry deliberately ignores |g_i| < 1e-14 (ZERO_THRESH, pinned by the repository's TestGeom2WithAlmostZeros) and relaxes "
               "bounds by 1e-14: absolute floor n*1e-14*Delta on optimality",
               "convex steps are returned as p - xopt: 8 eps |xopt| rounding allowance"]
NGEOM = {"quick": 16000, "thorough": 200000}
NCONV = {"quick": 480, "thorough": 12000}
NSITU = {"quick": 180, "thorough": 4000}
NPOLY = {"quick": 1600, "thorough": 40000}
GB, CB, PB = 400, 12, 40
CASE_TIMEOUT = {"quick": 400, "thorough": 900}
NSAMPLES = 5


def cases(tier, seed):
    out = []
    i = 0
    for b in range(NGEOM[tier] // GB):
        out.append(dict(i=i, seed=seed, type="geom", start=b * GB, count=GB)); i += 1
    for b in range(NCONV[tier] // CB):
        out.append(dict(i=i, seed=seed, type="conv", start=b * CB, count=CB)); i += 1
    for b in range(NPOLY[tier] // PB):
        out.append(dict(i=i, seed=seed, type="poly", start=b * PB, count=PB)); i += 1
    for j in range(NSITU[tier]):
        out.append(dict(i=i, seed=seed, type="insitu")); i += 1
    return out


def setup():
    engine.install_core_monitors()
    engine.install_log_tap()


def gen_geom(rng):
    n = int(rng.integers(1, 9))
    g = rng.normal(size=n) * 10.0 ** rng.integers(-3, 4)
    for j in range(n):
        u = rng.random()
        if u < 0.1:
            g[j] = 0.0
        elif u < 0.13:
            g[j] = 1e-15 * rng.normal()
    if rng.random() < 0.02:
        g = np.zeros(n)      # constant Lagrange polynomial: staying put is optimal ("never worse than not moving")
    c = float(gen.pick(rng, [0.0, 1.0, float(rng.normal()), float(rng.normal() * np.linalg.norm(g))]))
    Delta = float(10.0 ** rng.uniform(-4, 1))
    r2 = np.random.default_rng([int(rng.integers(0, 2 ** 31)), 3])
    if r2.random() < 0.12:
        # uniformly small gradients (well above the routine's own 1e-14 'zero' threshold), constant term of comparable size:
        # the optimum is still attained by going to the boundary, nothing may be rounded away
        g = g / (np.max(np.abs(g)) or 1.0) * float(10.0 ** r2.uniform(-11, -4))
        c = float(gen.pick(r2, [0.0, 0.3, -3.0, 1.0])) * float(np.linalg.norm(g)) * Delta
    xb = rng.normal(size=n) * (10.0 ** rng.integers(-1, 3) if rng.random() < 0.3 else 1.0)
    lo = xb - np.abs(rng.normal(size=n)) * 10.0 ** rng.uniform(-2, 1, size=n) * Delta
    hi = xb + np.abs(rng.normal(size=n)) * 10.0 ** rng.uniform(-2, 1, size=n) * Delta
    nact = 0
    for j in range(n):
        u = rng.random()
        if u < 0.15:
            lo[j] = xb[j]; nact += 1
        elif u < 0.3:
            hi[j] = xb[j]; nact += 1
        elif u < 0.4:
            lo[j] = -1e20; hi[j] = 1e20
        elif u < 0.45:
            lo[j] = xb[j]; hi[j] = xb[j] + 1e-3 * Delta; nact += 1    # nearly degenerate side
        elif u < 0.50:
            lo[j] = xb[j]; hi[j] = xb[j]; nact += 1                   # exactly degenerate side (a fixed variable)
            if rng.random() < 0.6:
                g[j] = 0.0 if rng.random() < 0.5 else 1e-16 * rng.normal()
    if r2.random() < 0.15:
        # "no bound" written as +-inf instead of +-1e20 (both are accepted by solve and by the routines)
        lo = np.where(lo <= -1e20, -np.inf, lo)
        hi = np.where(hi >= 1e20, np.inf, hi)
        for j in range(n):
            if r2.random() < 0.3:
                if r2.random() < 0.5:
                    lo[j] = -np.inf
                else:
                    hi[j] = np.inf
    nact += int(np.sum((xb - lo < Delta) | (hi - xb < Delta)))
    return xb, c, g, lo, hi, Delta, nact


def run_geom(case, res):
    st = res["stats"]
    f = contracts.contracted("trsbox_geometry")
    for k in range(case["start"], case["start"] + case["count"]):
        rng = engine.rng_for(case["seed"], NUM, k)
        xb, c, g, lo, hi, Delta, nact = gen_geom(rng)
        contracts.drain()
        try:
            x = f(xb, c, g, lo, hi, Delta)
        except Exception as e:
            res["viol"].append(V("exception", "trsbox_geometry raised %r on valid input %d" % (e, k), k=k))
            continue
        st["geom_direct_calls"] = st.get("geom_direct_calls", 0) + 1
        for w in contracts.drain():
            if len(res["viol"]) < 8:
                res["viol"].append(V(w["kind"], "synthetic geometry input %d (n=%d, Delta=%.2e): %s" % (k, len(g), Delta, w["msg"]),
                                     input_index=k, **w["witness"]))
        if nact > 0:
            res["nontrivial"].append("g%d" % k)
        if k % 5000 == 0:
            res["sample"] = dict(kind="geometry", index=k, c=c, g=g, lower_minus_xbase=lo - xb, upper_minus_xbase=hi - xb, Delta=Delta,
                                 step=x - xb, value=abs(c + g @ (x - xb)))


def gen_conv(rng):
    n = int(rng.integers(1, 5))
    sets, z, margin = gen.gen_convex_sets(rng, n, nsets=int(rng.integers(1, 5)), margin=float(10.0 ** rng.uniform(-2, 0)))
    # several half-spaces through / next to the centre make Dykstra slow: the hostile case for 'ball projected last'
    xopt = z.copy()
    nactive = 0
    if rng.random() < 0.5:
        k = int(rng.integers(1, 4))
        for _ in range(k):
            a = rng.normal(size=n)
            a /= np.linalg.norm(a)
            sets.append(dict(type="half", a=a.tolist(), b=float(a @ xopt + (0.0 if rng.random() < 0.7 else 1e-3 * margin))))
            nactive += 1
    if n >= 2 and rng.random() < 0.35:
        # narrow wedge with its apex at (or a hair from) the centre: two half-spaces whose normals are almost opposite.
        # Alternating projections crawl along such a wedge, so Dykstra stalls / hits its sweep cap inside the step solvers.
        Q, _ = np.linalg.qr(rng.normal(size=(n, n)))
        u, v = Q[:, 0], Q[:, 1]
        phi = float(10.0 ** rng.uniform(-2.5, -0.5))
        for sgn in (1.0, -1.0):
            a = sgn * np.cos(phi) * v + np.sin(phi) * u
            sets.append(dict(type="half", a=a.tolist(), b=float(a @ xopt + (0.0 if rng.random() < 0.7 else 1e-3 * margin))))
            nactive += 1
    Delta = float(10.0 ** rng.uniform(-3, 1)) * margin
    g = rng.normal(size=n) * 10.0 ** rng.integers(-2, 3)
    if rng.random() < 0.1:
        g[rng.integers(n)] = 0.0
    J = rng.normal(size=(int(rng.integers(1, n + 3)), n))
    H = 2 * J.T @ J * 10.0 ** rng.integers(-2, 2)
    u = rng.random()
    if u < 0.03:
        # flat model (all interpolated residual vectors equal => J = 0 => g = 2J'r = 0, H = 2J'J = 0): what a constant
        # objective, or an interpolation set clipped onto one point, hands to the step solvers
        g = np.zeros(n)
        H = np.zeros((n, n))
    elif u < 0.06:
        g = np.zeros(n)     # stationary incumbent, curved model
    # sets active within Delta of the centre
    nactive += sum(1 for p in sets if _dist_to_boundary(p, xopt) < Delta and _dist_to_boundary(p, xopt) > 1e-3 * margin)
    return n, sets, xopt, g, H, Delta, nactive


def _dist_to_boundary(p, x):
    if p["type"] == "ball":
        return float(p["r"] - np.linalg.norm(x - np.array(p["c"])))
    if p["type"] == "half":
        return float(p["b"] - np.array(p["a"]) @ x)
    return float(min(np.min(x - np.array(p["l"])), np.min(np.array(p["u"]) - x)))


def run_conv(case, res):
    st = res["stats"]
    pgd = contracts.contracted("ctrsbox_pgd")
    sfista = contracts.contracted("ctrsbox_sfista")
    cgeom = contracts.contracted("ctrsbox_geometry")
    for k in range(case["start"], case["start"] + case["count"]):
        rng = engine.rng_for(case["seed"], NUM, k, 1)
        n, sets, xopt, g, H, Delta, nactive = gen_conv(rng)
        P = [gen.make_projection(p) for p in sets]
        lam = float(10.0 ** rng.uniform(-2, 0))
        h = lambda x: lam * float(np.abs(x).sum())
        prox = lambda x, u: np.sign(x) * np.maximum(np.abs(x) - lam * u, 0)
        contracts.drain()
        g2 = engine.rng_for(case["seed"], NUM, k, 7)   # own stream: the inputs above stay what they were
        try:
            with engine.alarm(60):
                # the routines' own Dykstra budget / tolerance (dykstra.max_iters, dykstra.d_tol: every documented-valid value with at
                # least one sweep) and the S-FISTA knobs (func_tol.*, sfista.max_iters_scaling) are part of the input: a third of the
                # calls use non-default ones, down to a single sweep, where only "ball projected last" keeps the step in the region
                dk = {}
                if g2.random() < 0.35:
                    dk = dict(d_max_iters=int(gen.pick(g2, [1, 2, 3, 10, 1000])), d_tol=float(10.0 ** g2.uniform(-13, -4)))
                    st["conv_nondefault_dykstra"] = st.get("conv_nondefault_dykstra", 0) + 1
                pgd(xopt, g, H, P, Delta, **dk)
                st["pgd_direct_calls"] = st.get("pgd_direct_calls", 0) + 1
                cgeom(xopt, float(rng.normal()), g.copy(), P, Delta, **dk)
                st["cgeom_direct_calls"] = st.get("cgeom_direct_calls", 0) + 1
                sk = dict(func_tol=1e-3 * Delta, max_iters=300)
                if g2.random() < 0.35:
                    sk = dict(func_tol=float(10.0 ** g2.uniform(-6, -1)) * Delta, max_iters=int(gen.pick(g2, [1, 5, 50, 500])),
                              sfista_iters_scale=float(g2.uniform(1.0, 4.0)))
                sfista(xopt, g, H, P, Delta, h, lam * np.sqrt(n), prox, **sk, **dk)
                st["sfista_direct_calls"] = st.get("sfista_direct_calls", 0) + 1
        except engine.CaseTimeout:
            st["conv_direct_timeouts"] = st.get("conv_direct_timeouts", 0) + 1
        except Exception as e:
            res["viol"].append(V("exception", "convex step routine raised %r on valid input %d" % (e, k), k=k))
        for w in contracts.drain():
            if len(res["viol"]) < 8:
                res["viol"].append(V(w["kind"], "synthetic convex input %d (n=%d, %d sets, Delta=%.2e): %s" % (k, n, len(sets), Delta, w["msg"]),
                                     input_index=k, sets=sets, **w["witness"]))
        if nactive > 0:
            res["nontrivial"].append("c%d" % k)
        if k % 200 == 0:
            res["sample"] = dict(kind="convex-step", index=k, n=n, sets=sets, xopt=xopt, Delta=Delta, active_sets=nactive)


def run_poly(case, res):
    """Polytopes cut out of the trust region: 2-4 half-spaces (sometimes a box or ball) whose boundaries pass at 0.1-1.0 Delta
    from the centre, so the solution sits on a vertex of constraints and ball - where Dykstra converges slowly or stalls
    and only 'trust-region ball projected last' keeps the step inside the region."""
    st = res["stats"]
    pgd = contracts.contracted("ctrsbox_pgd")
    cgeom = contracts.contracted("ctrsbox_geometry")
    for k in range(case["start"], case["start"] + case["count"]):
        rng = engine.rng_for(case["seed"], NUM, k, 3)
        n = int(rng.integers(2, 4))
        Delta = float(10.0 ** rng.uniform(-3, 1))
        xopt = rng.normal(size=n) * (float(10.0 ** rng.integers(0, 3)) if rng.random() < 0.3 else 1.0)
        sets = []
        for _ in range(int(rng.integers(2, 5))):
            a = rng.normal(size=n)
            a /= np.linalg.norm(a)
            sets.append(dict(type="half", a=a.tolist(), b=float(a @ xopt + Delta * rng.uniform(0.1, 1.0))))
        if rng.random() < 0.25:
            w = Delta * rng.uniform(0.1, 1.0, size=n)
            sets.append(dict(type="box", l=(xopt - w).tolist(), u=(xopt + Delta * rng.uniform(0.1, 1.0, size=n)).tolist()))
        P = [gen.make_projection(p) for p in sets]
        g = rng.normal(size=n) * 10.0 ** rng.integers(-1, 2) / Delta
        H = (0.1 * 10.0 ** rng.uniform(-1, 1)) * np.eye(n) / Delta if rng.random() < 0.5 else np.zeros((n, n))
        if rng.random() < 0.3:
            J = rng.normal(size=(n, n))
            H = 2 * J.T @ J / Delta
        contracts.drain()
        try:
            with engine.alarm(60):
                pgd(xopt, g, H, P, Delta)
                st["pgd_direct_calls"] = st.get("pgd_direct_calls", 0) + 1
                cgeom(xopt, float(rng.normal()), g.copy(), P, Delta)
                st["cgeom_direct_calls"] = st.get("cgeom_direct_calls", 0) + 1
        except engine.CaseTimeout:
            st["conv_direct_timeouts"] = st.get("conv_direct_timeouts", 0) + 1
        except Exception as e:
            res["viol"].append(V("exception", "convex step routine raised %r on valid polytope input %d" % (e, k), k=k))
        for w in contracts.drain():
            if len(res["viol"]) < 8:
                res["viol"].append(V(w["kind"], "synthetic polytope input %d (n=%d, %d sets, Delta=%.2e): %s" % (k, n, len(sets), Delta, w["msg"]),
                                     input_index=k, sets=sets, g=g, H=H, **w["witness"]))
        res["nontrivial"].append("p%d" % k)
        if k % 800 == 0:
            res["sample"] = dict(kind="polytope-step", index=k, n=n, sets=sets, xopt=xopt, Delta=Delta, g=g)


def make_situ_cfg(seed, i):
    rng = engine.rng_for(seed, NUM, i, 2)
    mode = i % 5    # 0 bounded, 1 convex, 2 regularised (+/- box), 3 regularised + scaling, 4 regularised + convex sets
    spec = gen.gen_problem(rng, kinds=("linear", "sinlin", "rosen"), nmax=4, mmax=6)
    n = spec["n"]
    cfg = dict(prob=spec, user_params={}, lower=None, upper=None)
    if mode == 0:
        box = gen.gen_box(rng, n, scaling_p=0.3)
        cfg.update(x0=box["x0"], lower=box["lower"], upper=box["upper"])
        cfg["args"] = dict(rhobeg=box["rhobeg"], rhoend=box["rhobeg"] * 1e-6, maxfun=int(gen.pick(rng, [40, 100])))
        if box["scaling"]:
            cfg["args"]["scaling_within_bounds"] = True
        if rng.random() < 0.4:
            cfg["args"]["npt"] = int(rng.integers(n + 1, 2 * n + 2))
            cfg["user_params"]["regression.num_extra_steps"] = 1
        cfg["user_params"]["logging.save_diagnostic_info"] = bool(rng.random() < 0.3)   # poisedness uses trsbox_geometry too
    elif mode == 1:
        sets, z, margin = gen.gen_convex_sets(rng, n, nsets=int(rng.integers(1, 4)))
        off = float(10.0 ** rng.integers(0, 3)) if rng.random() < 0.3 else 0.0
        cfg["proj"] = sets
        cfg["x0"] = (z + 0.3 * margin * rng.normal(size=n) / np.sqrt(n)).tolist()
        cfg["args"] = dict(rhobeg=float(0.3 * margin), rhoend=float(0.3 * margin * 1e-5), maxfun=int(gen.pick(rng, [20, 35])))
    elif mode == 4:
        # regulariser AND convex sets: the smoothed-FISTA step (its last iterate, which may increase the model next to a kink
        # of h) is handed to the main loop only after the sufficient-decrease check of Controller.trust_region_step
        sets, z, margin = gen.gen_convex_sets(rng, n, nsets=int(rng.integers(1, 3)), margin=float(10.0 ** rng.uniform(-0.5, 0.5)))
        cfg["proj"] = sets
        cfg["reg"] = dict(type=gen.pick(rng, ["l1", "l1", "l2"]), lam=float(10.0 ** rng.uniform(-1, 1.3)))
        cfg["x0"] = (z + 0.3 * margin * rng.normal(size=n) / np.sqrt(n)).tolist()
        cfg["args"] = dict(rhobeg=float(0.3 * margin), rhoend=float(0.3 * margin * 1e-4), maxfun=int(gen.pick(rng, [15, 25])))
    else:
        cfg["reg"] = dict(type=gen.pick(rng, ["l1", "l2"]), lam=float(10.0 ** rng.uniform(-2, 0)))
        cfg["x0"] = (rng.normal(size=n) * 2).tolist()
        cfg["args"] = dict(maxfun=int(gen.pick(rng, [15, 25])), rhoend=1e-5)
        if mode == 3 or rng.random() < 0.5:
            box = gen.gen_box(rng, n, scaling_p=0.0, one_sided_p=0.0, place_p=0.3)
            if all(v is not None for v in box["lower"]) and all(v is not None for v in box["upper"]):
                cfg.update(x0=box["x0"], lower=box["lower"], upper=box["upper"])
                cfg["args"]["rhobeg"] = box["rhobeg"]
                cfg["args"]["rhoend"] = box["rhobeg"] * 1e-4
                if mode == 3:
                    cfg["args"]["scaling_within_bounds"] = True
                    cfg["args"]["rhobeg"] = 0.1
                    cfg["args"]["rhoend"] = 1e-5
    return cfg


def install_tr_step_monitor():
    from dfols.controller import Controller
    if "trstep" in engine._INSTALLED:
        return
    engine._INSTALLED.add("trstep")

    def mk(orig):
        def trust_region_step(self, params, *a, **kw):
            out = orig(self, params, *a, **kw)
            c = engine.CTX
            if c is not None and self.h is not None and c.extra.get("user_map") is not None:
                d, gopt, H = out[0], out[1], out[2]
                if np.all(np.isfinite(d)) and np.all(np.isfinite(gopt)) and np.all(np.isfinite(H)):
                    um, hraw = c.extra["user_map"], c.extra["h_raw"]
                    x = self.model.xopt(abs_coordinates=True)
                    h0, h1 = float(hraw(um(x))), float(hraw(um(x + d)))
                    quad = float(gopt @ d + 0.5 * d @ (H @ d))
                    pred = h0 - (quad + h1)
                    scale = float(np.abs(gopt) @ np.abs(d) + 0.5 * np.abs(d) @ (np.abs(H) @ np.abs(d))) + abs(h0) + abs(h1)
                    contracts.rec("trust_region_step.nonnegative-predicted-reduction", pred >= -1e-12 * scale - 1e-300,
                                  "regularised step handed to the main loop has predicted reduction %.6g (scale %.3g)" % (pred, scale),
                                  pred=pred, d=d, xopt=x, h0=h0, h1=h1, quad=quad)
            return out
        return trust_region_step
    engine.BINDINGS["Controller.trust_region_step"] = engine.instrument_method(Controller, "trust_region_step", mk)


def add_situ_options(cfg, seed, i):
    """Options of the shared table on top of the in-situ modes (own stream: the modes themselves stay what they were): growing initial
    sets with and without their safety step, restarts, seldom-used keys - the regularised step is handed to the main loop from several
    places, each guarded on its own."""
    g = engine.rng_for(seed, NUM, i, 8)
    up = cfg["user_params"]
    n = cfg["prob"]["n"]
    if cfg.get("reg") and n >= 2 and g.random() < 0.5:
        up["growing.ndirs_initial"] = int(g.integers(1, n))
        nosafety = bool(g.random() < 0.6)
        if nosafety:
            up["growing.safety.do_safety_step"] = False
        if g.random() < 0.3:
            up["growing.num_new_dirns_each_iter"] = 1
        if nosafety or g.random() < 0.5:
            # strong L1 term with the start on its kink in some coordinates
            cfg["reg"] = dict(type="l1", lam=float(10.0 ** g.uniform(0.3, 1.5)))
            if cfg.get("lower") is None and not cfg.get("proj"):
                x0 = np.array(cfg["x0"], dtype=float)
                x0[g.random(n) < 0.5] = 0.0
                cfg["x0"] = x0.tolist()
    if g.random() < 0.3:
        up["restarts.use_restarts"] = True
        if g.random() < 0.4:
            up["restarts.use_soft_restarts"] = False
    gen.rare_options(up, n, p_block=0.4, reg=bool(cfg.get("reg")), proj=bool(cfg.get("proj")))
    return cfg


def run_insitu(case, res):
    st = res["stats"]
    contracts.install_insitu(["trsbox_geometry", "ctrsbox_pgd", "ctrsbox_sfista", "ctrsbox_geometry"])
    install_tr_step_monitor()
    cfg = case.get("cfg") or add_situ_options(make_situ_cfg(case["seed"], case["i"]), case["seed"], case["i"])
    case["cfg"] = cfg
    ctx = engine.Ctx()
    built = gen.build(cfg, ctx)
    if cfg.get("reg"):
        if cfg["args"].get("scaling_within_bounds"):
            lo, hi = built.lo, built.hi
            ctx.extra["user_map"] = lambda x: np.minimum(lo + x * (hi - lo), hi)
        else:
            ctx.extra["user_map"] = lambda x: x
        ctx.extra["h_raw"] = built.h_raw
    contracts.drain()
    run = gen.run_cfg(cfg, ctx, timeout=200, built=built)
    oracles.common_stats(run, st)
    st["mode|%d" % (case["i"] % 5)] = 1
    for w in contracts.drain():
        if len(res["viol"]) < 6:
            res["viol"].append(V(w["kind"], "in situ (run %d): %s" % (case["i"], w["msg"]), **w["witness"]))
    if run.timeout:
        res["inconclusive"].append("watchdog")
    res["nontrivial"].append("s" + oracles.cfg_hash(cfg))
    if case["i"] % 70 == 0:
        res["sample"] = dict(kind="insitu", case=case["i"], prob=cfg["prob"], args=cfg["args"], proj=cfg.get("proj"), reg=cfg.get("reg"),
                             calls=len(run.ctx.calls))


def run_case(case):
    res = dict(stats={}, viol=[], nontrivial=[], inconclusive=[])
    contracts.STRICT = False
    before = dict(contracts.COUNTS)
    {"geom": run_geom, "conv": run_conv, "poly": run_poly, "insitu": run_insitu}[case["type"]](case, res)
    for k, v in contracts.COUNTS.items():
        dv = v - before.get(k, 0)
        if dv:
            res["stats"]["contract|" + k] = dv
    return res


def finalize(agg):
    st = agg["stats"]
    reasons = []
    need = {"contract|geom.global-max": 5000, "contract|ctrsbox_pgd.ball": 300, "contract|ctrsbox_sfista.ball": 300,
            "contract|ctrsbox_geometry.ball": 300, "contract|trust_region_step.nonnegative-predicted-reduction": 200}
    for k, v in need.items():
        if st.get(k, 0) < v:
            reasons.append("%s evaluated only %d times (< %d)" % (k[9:], st.get(k, 0), v))
    if st.get("conv_direct_timeouts", 0) > 0.05 * max(1, st.get("pgd_direct_calls", 0)):
        reasons.append("%d direct convex cases hit the alarm" % st.get("conv_direct_timeouts", 0))
    cov = dict(evaluations=int(st.get("contract|geom.ball", 0) + st.get("contract|ctrsbox_pgd.ball", 0) + st.get("contract|ctrsbox_sfista.ball", 0)
                               + st.get("contract|ctrsbox_geometry.ball", 0) + st.get("contract|trust_region_step.nonnegative-predicted-reduction", 0)),
               clause_evaluations={k[9:]: int(v) for k, v in st.items() if k.startswith("contract|")},
               direct_calls=dict(trsbox_geometry=int(st.get("geom_direct_calls", 0)), ctrsbox_pgd=int(st.get("pgd_direct_calls", 0)),
                                 ctrsbox_sfista=int(st.get("sfista_direct_calls", 0)), ctrsbox_geometry=int(st.get("cgeom_direct_calls", 0))),
               solver_runs_in_situ=int(st.get("runs", 0)), have_icontract=contracts.HAVE_ICONTRACT)
    return cov, reasons

"""C11 - the returned Jacobian is the fit through the evaluations it names."""
import numpy as np
from .. import engine, gen, oracles, campaign
from ..oracles import V

ID = "C11"
NUM = 11
LEVEL = "exploration"
RULE = ("smooth (linear, sin/quadratic, exp, Rosenbrock-chain) problems, +/- bounds with x0 next to them, scaling on/off, npt in [n+1, 2n+1], "
        "budget-limited and normal termination, soft and hard restarts (+/- use_old_rk), growing phases that complete, sample averaging. "
        "Oracle: take the recorded (x_k, mean r_k) of the evaluation points named in soln.jacmin_eval_nums (which must be distinct "
        "points of the history), fit r ~ c + J(x - xbar) by SVD least squares on the column-scaled design matrix and compare with "
        "soln.jacobian in user coordinates: |J - J_soln|_max / |J|_max <= 1e3 eps cond(W)(1+|x|/spread)(|R|/(|J| spread)); for linear "
        "residuals also J_soln == A. Cases with tolerance > 1e-2 are skipped as ill-conditioned and counted. Non-trivial = checked "
        "case with restarts, scaling, npt > n+1, averaging, completed growing or budget exit; distinct by configuration hash"
        ' Second session: scaling switch and float parameters given as numpy scalars on 40 % of the scaled runs.')
ASSUMPTIONS = ["a Jacobian with jacmin_eval_nums = None is documented as 'not formed using problem information, disregard' and is not checked",
               "a point set is 'fully initialised' when jacmin_eval_nums contains no 0 (unfilled slot)"]
N = {"quick": 4000, "thorough": 40000}
CASE_TIMEOUT = {"quick": 200, "thorough": 600}
NSAMPLES = 5


def cases(tier, seed):
    return [dict(i=i, seed=seed) for i in range(N[tier])]


def setup():
    engine.install_core_monitors()
    engine.install_log_tap()


def make_cfg(seed, i):
    rng = engine.rng_for(seed, NUM, i)
    r = rng.random
    fam = i % 5
    allow = ("restarts", "regression", "tols", "rare")
    if fam == 3:
        allow = ("restarts", "growing", "tols", "rare")
    cfg = campaign.gen_cfg(rng, noise_p=0.15, averaging_p=0.15, box_p=0.5, proj_p=0.0, reg_p=0.0, restarts_p=0.55, nmax=5, mmax=8,
                           kinds=("linear", "sinlin", "exp", "rosen", "quadres"), allow=allow, npt_p=0.4, term_p=0.15,
                           maxfuns=(15, 30, 60, 120, 250))
    up = cfg["user_params"]
    n = cfg["prob"]["n"]
    if fam == 3 and n > 1 and "restarts.increase_npt" not in up and cfg["args"].get("npt") in (None, n + 1):
        cfg["args"].pop("npt", None)
        up["growing.ndirs_initial"] = int(rng.integers(1, n + 1))
        up["growing.num_new_dirns_each_iter"] = int(rng.integers(0, 3))
        if r() < 0.4:
            up["growing.do_geom_steps"] = True
    if fam == 4 and up.get("restarts.use_restarts"):
        # many restarts: reach rhoend quickly
        cfg["args"]["rhoend"] = float((cfg["args"].get("rhobeg") or 0.1) * 10.0 ** rng.uniform(-3, -1))
    if i % 10 == 7:
        # soft restarts that ADD points, with every point sampled more than once (evaluation counter and point counter differ),
        # coarse rhoend so that several restarts fit into the budget: the Jacobian is then a regression fit through points some
        # of which were appended by a restart
        for k in list(up):
            if k.startswith(("restarts.", "growing.", "regression.")):
                up.pop(k)
        cfg["args"].pop("npt", None)
        up.update({"restarts.use_restarts": True, "restarts.increase_npt": True, "restarts.max_npt": int(n + 1 + rng.integers(1, n + 2)),
                   "restarts.increase_npt_amt": int(rng.integers(1, 3)), "restarts.max_unsuccessful_restarts": 10})
        cfg["nsamples"] = dict(kind="const", v=int(rng.integers(2, 4)))
        cfg["args"]["rhoend"] = float((cfg["args"].get("rhobeg") or 0.1 * max(1.0, float(np.max(np.abs(cfg["x0"]))))) * 10.0 ** rng.uniform(-2.5, -1))
        cfg["args"]["maxfun"] = int(gen.pick(rng, [80, 150]))
    up.pop("noise.quit_on_noise_level", None)
    up.pop("noise.additive_noise_level", None)
    up.pop("noise.multiplicative_noise_level", None)
    campaign.maybe_failpoint(cfg, rng, p=0.1)
    if cfg["args"].get("scaling_within_bounds") and np.random.default_rng([int(seed), NUM, int(i), 7]).random() < 0.4:
        # the scaling switch (and float parameters) given as numpy scalars: the Jacobian must still come back in the user's coordinates
        cfg["_forms"] = sorted(set(list(cfg.get("_forms") or []) + ["np_scalars"]))
    return cfg


def fit_jacobian(X, R):
    p, n = X.shape
    xbar = X.mean(axis=0)
    D = X - xbar
    s = np.max(np.abs(D), axis=0)
    if np.any(s == 0):
        return None
    W = np.hstack([np.ones((p, 1)), D / s])
    sv = np.linalg.svd(W, compute_uv=False)
    if sv[-1] <= 0 or not np.isfinite(sv).all():
        return None
    cond = float(sv[0] / sv[-1])
    sol = np.linalg.lstsq(W, R, rcond=None)[0]
    J = (sol[1:, :] / s[:, None]).T
    spread = float(np.max(np.linalg.norm(D, axis=1)))
    return J, cond, spread, xbar


def run_case(case):
    res = dict(stats={}, viol=[], nontrivial=[], inconclusive=[])
    st = res["stats"]
    cfg = case.get("cfg") or make_cfg(case["seed"], case["i"])
    case["cfg"] = cfg
    run = gen.run_cfg(cfg, timeout=90)
    oracles.common_stats(run, st)
    s = run.soln
    if run.timeout:
        res["inconclusive"].append("watchdog")
        return res
    if run.livelock:
        res["inconclusive"].append("livelock guard fired (owned by C07/C10)")
        return res
    if run.exc is not None or s is None or s.flag == s.EXIT_INPUT_ERROR:
        return res
    if s.jacobian is None:
        st["skip|no-jacobian-returned"] = 1
        return res
    en = s.jacmin_eval_nums
    if en is None:
        st["skip|eval-nums-None(disregard)"] = 1
        return res
    en = np.asarray(en)
    if np.any(en == 0):
        st["skip|point-set-not-fully-initialised"] = 1
        return res
    tab = oracles.point_table(run)
    viol = res["viol"]
    st["results_with_jacobian"] = 1
    if len(set(en.tolist())) != len(en):
        viol.append(V("eval-nums-not-distinct", "jacmin_eval_nums=%s has repeated entries" % en.tolist()))
        return res
    if any(int(k) not in tab for k in en):
        viol.append(V("eval-nums-not-in-history", "jacmin_eval_nums=%s names points that were never evaluated (history has points 1..%d)" % (
            en.tolist(), max(tab) if tab else 0), eval_nums=en.tolist()))
        return res
    n = cfg["prob"]["n"]
    X = np.array([tab[int(k)]["x"] for k in en])
    R = np.array([tab[int(k)]["rbar"] for k in en])
    if not (np.all(np.isfinite(X)) and np.all(np.isfinite(R))):
        st["skip|nonfinite-data"] = 1
        return res
    if X.shape[0] < n + 1:
        viol.append(V("too-few-points", "Jacobian returned with only %d named evaluations for n=%d" % (X.shape[0], n)))
        return res
    fit = fit_jacobian(X, R)
    if fit is None:
        st["skip|degenerate-design"] = 1
        return res
    J, cond, spread, xbar = fit
    Js = np.asarray(s.jacobian, dtype=float)
    if Js.shape != J.shape:
        viol.append(V("jacobian-shape", "soln.jacobian has shape %s, expected %s" % (Js.shape, J.shape)))
        return res
    # compare in the scaled design space G = J diag(s) (residual change per unit scaled step): dimensionally consistent when
    # coordinates have wildly different scales. Rounding noise: residuals (eps |R|) and the cancellation in x - xbar
    # (relative perturbation eps |x_j| / s_j of column j), both amplified by cond(W).
    sc = np.max(np.abs(X - xbar), axis=0)
    G, Gs = J * sc, Js * sc
    Gn = float(np.max(np.abs(G)))
    Rn = float(np.max(np.abs(R)))
    canc = float(np.max(np.max(np.abs(X), axis=0) / sc))
    eps = np.finfo(float).eps
    tol_abs = 1e4 * eps * cond * (Rn + Gn * (1 + canc))   # (1e3 was exceeded once in 80,000 Jacobians: err/tol = 1.4 at cancellation 4e6, seed 16)
    if Gn == 0 or not (tol_abs <= 1e-2 * Gn):
        st["skip|ill-conditioned(tol>1e-2)"] = 1
        return res
    tol = tol_abs / Gn
    st["jacobians_checked"] = 1
    err = float(np.max(np.abs(G - Gs)) / Gn)
    b = int(np.ceil(np.log10(max(err / tol, 1e-12))))
    st["err_over_tol<1e%d" % b] = 1
    if err > tol:
        viol.append(V("jacobian-is-not-the-fit", "soln.jacobian differs from the fit through evaluations %s by %.3g relative (tolerance %.2g; "
                      "cond %.1f; %s)" % (en.tolist(), err, tol, cond, s.msg[:40]),
                      err=err, tol=tol, eval_nums=en.tolist(), jac=Js, fit=J, nruns=s.nruns))
    if cfg["prob"]["kind"] == "linear" and not cfg["prob"].get("noise"):
        A, _b = gen.linear_data(n, cfg["prob"]["m"], cfg["prob"]["pseed"], cfg["prob"].get("cond", 10.0), cfg["prob"].get("scale", 1.0),
                                cfg["prob"].get("bscale", 1.0))
        st["linear_checked_against_A"] = 1
        errA = float(np.max(np.abs(A * sc - Gs)) / Gn)
        if errA > tol:
            viol.append(V("jacobian-not-A", "linear residuals but soln.jacobian differs from A by %.3g relative (tolerance %.2g)" % (errA, tol),
                          err=errA, tol=tol, jac=Js, A=A))
    up = cfg["user_params"]
    feats = []
    if s.nruns > 1:
        feats.append("restarted")
    if cfg["args"].get("scaling_within_bounds"):
        feats.append("scaled")
    if len(en) > n + 1:
        feats.append("regression")
    if cfg.get("nsamples"):
        feats.append("averaged")
    if "growing.ndirs_initial" in up:
        feats.append("grown")
    if s.flag == s.EXIT_MAXFUN_WARNING:
        feats.append("budget-exit")
    for f in feats:
        st["feature|" + f] = 1
    if feats:
        res["nontrivial"].append(oracles.cfg_hash(cfg))
    if case["i"] % 150 == 0:
        res["sample"] = dict(case=case["i"], prob=cfg["prob"], args=cfg["args"], user_params=up, jacmin_eval_nums=en.tolist(),
                             relative_error=err, tolerance=tol, cond=cond, features=feats, nruns=s.nruns, msg=s.msg)
    return res


def finalize(agg):
    st = agg["stats"]
    reasons = []
    if st.get("jacobians_checked", 0) < 0.5 * agg["ncases"]:
        reasons.append("only %d of %d cases reached the Jacobian oracle" % (st.get("jacobians_checked", 0), agg["ncases"]))
    for f in ("restarted", "scaled", "regression", "grown", "budget-exit", "averaged"):
        if st.get("feature|" + f, 0) < 15:
            reasons.append("feature %s checked only %d times" % (f, st.get("feature|" + f, 0)))
    cov = dict(objfun_calls=int(st.get("objfun_calls", 0)), jacobians_checked=int(st.get("jacobians_checked", 0)),
               linear_checked_against_A=int(st.get("linear_checked_against_A", 0)),
               skipped={k[5:]: int(v) for k, v in st.items() if k.startswith("skip|")},
               features_checked={k[8:]: int(v) for k, v in st.items() if k.startswith("feature|")},
               error_over_tolerance_histogram={k: int(v) for k, v in st.items() if k.startswith("err_over_tol")},
               restarts_seen=dict(soft=int(st.get("soft_restarts", 0)), hard=int(st.get("hard_restarts", 0))))
    return cov, reasons

"""C10 - exit flags and messages tell the truth."""
import copy
import numpy as np
from .. import engine, gen, oracles, campaign
from ..oracles import V

ID = "C10"
NUM = 10
LEVEL = "exploration"
RULE = ("random runs over tolerances (6 decades), budgets, rhoend 1e-8..1e-2, restarts.rhoend_scale in {1,.9,.5,.1}, "
        "max_unsuccessful_restarts in {1,2,3,10}, soft/hard restarts, noise, slow-progress / false-success / noise-level exits, plus per "
        "reference run the exit-index and budget-index enumerations, a NaN fault at the last / a late evaluation, and source-free "
        "failpoints (LinAlgError raised inside the Lagrange solve at the j-th call, j spread over the reference run) that drive the "
        "restart blocks which only a linear-algebra failure reaches. Oracle per claim on "
        "the result and the captured controllers: 'sufficiently small' => obj <= max(abs_tol, rel_tol*f(x0)) with f(x0) recomputed from "
        "the recorded samples; 'rho has reached rhoend' => last controller's rho == rhoend*scale^restarts exactly (recomputed with the "
        "same arithmetic); max-evals flag => nf == maxfun == #calls; 'unsuccessful restarts' => runs >= max_unsuccessful_restarts; "
        "nruns == 1 + hard restarts + completed soft restarts (counted by wrappers); success => finite obj. Non-trivial/distinct = "
        "(exit record site, flag, message) x restart mode x configuration hash"
        ' Second session: a quarter of the enum/rand runs un-logged; regularised problems whose threshold lies between sum(r^2) and sum(r^2)+h; batch initialisation with a re-used result buffer.')
ASSUMPTIONS = ["restarts are counted by harness wrappers around solve_main and Controller.soft_restart (a soft restart is 'performed' when "
               "soft_restart returns None)",
               "finding D22 is keyed: success flag AND no point with a finite averaged objective anywhere in the recorded history"]
NENUM = {"quick": 70, "thorough": 1500}
NRAND = {"quick": 900, "thorough": 20000}
NFAULT = {"quick": 120, "thorough": 2500}
NFAILPT = {"quick": 90, "thorough": 1500}
CASE_TIMEOUT = {"quick": 300, "thorough": 900}
NSAMPLES = 5
MIN_EXIT_RECORDS = {"quick": 12, "thorough": 16}

PINNED = [
    dict(pinned="success-flag-with-no-finite-point-in-history",
         cfg=dict(prob=dict(kind="rosen", n=2, m=2, pseed=1), x0=[-1.2, 1.0], lower=None, upper=None,
                  args=dict(maxfun=60, rhoend=1e-4), user_params={"restarts.use_restarts": True}, persistent=[1, "nan_all"])),
    dict(pinned="success-flag-with-no-finite-point-in-history",
         cfg=dict(prob=dict(kind="rosen", n=2, m=2, pseed=1), x0=[-1.2, 1.0], lower=None, upper=None,
                  args=dict(maxfun=60, rhoend=1e-4), user_params={}, persistent=[1, "inf"])),
]


def cases(tier, seed):
    out = []
    i = 0
    for p in PINNED:
        out.append(dict(i=i, seed=seed, type="pinned", **p)); i += 1
    for t, n in (("enum", NENUM[tier]), ("rand", NRAND[tier]), ("fault", NFAULT[tier]), ("failpoint", NFAILPT[tier])):
        for _ in range(n):
            out.append(dict(i=i, seed=seed, type=t)); i += 1
    return out


def setup():
    engine.install_core_monitors()
    engine.install_log_tap()
    engine.install_failpoints()


def make_cfg(seed, i, typ):
    rng = engine.rng_for(seed, NUM, i)
    r = rng.random
    if typ == "enum" and i % 10 != 7:
        cfg = campaign.gen_cfg(rng, maxfuns=(20, 30, 45), nmax=3, proj_p=0.04, reg_p=0.10, restarts_p=0.6, averaging_p=0.25)
        if cfg.get("proj") or cfg.get("reg"):
            cfg["args"]["maxfun"] = min(cfg["args"]["maxfun"], 18)
        if i % 3 == 2 and not cfg.get("proj"):
            # batch initialisation (all initial points evaluated before any is stored) with a residual function that returns one
            # re-used buffer: the exit-index enumeration ends the run at each initial point in turn
            cfg["user_params"]["init.random_initial_directions"] = True
            cfg["user_params"]["init.run_in_parallel"] = True
            cfg["user_params"].pop("growing.ndirs_initial", None)
            cfg["args"].pop("npt", None)
            cfg.pop("nsamples", None)
            cfg["_forms"] = ["ret_samebuf"]
        if i % 3 == 1 and not cfg.get("proj") and not cfg.get("reg"):
            # every point sampled 2-5 times, and the 'sufficiently small' threshold a little below the objective values the run
            # sees: with the budget expiring in the middle of a point's samples (budget-index enumeration) an average taken over
            # samples that were never run would pass the test
            cfg["nsamples"] = dict(kind="const", v=int(rng.integers(2, 6)))
            f0 = float(np.sum(gen.make_residual(cfg["prob"], cfg.get("lower"), cfg.get("upper"))(np.array(cfg["x0"], dtype=float)) ** 2))
            if np.isfinite(f0) and f0 > 0:
                cfg["user_params"]["model.abs_tol"] = f0 * float(rng.uniform(0.3, 0.8))
                cfg["user_params"]["model.rel_tol"] = 0.0
    elif typ in ("rand", "enum") and i % 10 == 7:
        cfg = reg_threshold_cfg(np.random.default_rng([int(seed), NUM, int(i), 3]), enum=(typ == "enum"))
    elif typ == "rand":
        cfg = campaign.gen_cfg(rng, restarts_p=0.6, maxfuns=(5, 12, 25, 40, 60, 100, 200, 400), term_p=0.45, proj_p=0.05, reg_p=0.05)
        if cfg.get("proj") or cfg.get("reg"):
            cfg["args"]["maxfun"] = min(cfg["args"]["maxfun"], 30)
        cfg["args"]["rhoend"] = float(10.0 ** rng.uniform(-8, -2)) * (cfg["args"].get("rhobeg") or 0.1)
        up = cfg["user_params"]
        if up.get("restarts.use_restarts"):
            if r() < 0.5:
                up["restarts.rhoend_scale"] = float(gen.pick(rng, [0.5, 0.1, 0.9]))
            if r() < 0.5:
                up["restarts.max_unsuccessful_restarts"] = int(gen.pick(rng, [1, 2, 3, 10]))
            if r() < 0.3:
                cfg["args"]["rhoend"] = 1e-2 * (cfg["args"].get("rhobeg") or 0.1)
        if i % 5 == 2 and not cfg.get("proj") and not cfg.get("reg"):
            # relative small-objective threshold that matters (rel_tol*f(x0) far above abs_tol), long first steps (the model slot that
            # held x0 is soon overwritten, possibly by a worse point): the threshold is max(abs_tol, rel_tol*f(x0)) whatever is stored
            up["model.rel_tol"] = float(rng.uniform(0.03, 0.9))
            up["model.abs_tol"] = 1e-20
            rb = cfg["args"].get("rhobeg") or 0.1 * max(1.0, float(np.max(np.abs(cfg["x0"]))))
            if cfg.get("lower") is None and cfg.get("upper") is None:
                cfg["args"]["rhobeg"] = float(rb * gen.pick(rng, [3.0, 10.0, 20.0]))
            cfg["args"]["rhoend"] = float(1e-6 * cfg["args"].get("rhobeg", rb))
            cfg["args"]["maxfun"] = 100
        if r() < 0.25:
            # radius-update constants anywhere in their documented ranges ('rho has reached rhoend' must mean rho == rhoend)
            up["tr_radius.alpha1"] = float(10.0 ** rng.uniform(-4, -0.05))
            up["tr_radius.alpha2"] = float(10.0 ** rng.uniform(-3, -0.02))
    elif typ == "failpoint":
        # restart-heavy configurations (soft mostly): an injected linear-algebra failure in the Lagrange solve then takes the
        # soft-restart call site of whichever step asked for it (point replacement, geometry step, regression step, growing ...)
        cfg = campaign.gen_cfg(rng, restarts_p=1.0, term_p=0.0, reg_p=0.0, proj_p=0.0, maxfuns=(40, 60, 90), nmax=3, npt_p=0.5,
                               allow=("restarts", "regression", "growing", "rare"), averaging_p=0.15, noise_p=0.2)
        n = cfg["prob"]["n"]
        if r() < 0.3 and n > 1 and cfg["args"].get("npt") in (None, n + 1) and "restarts.increase_npt" not in cfg["user_params"]:
            # growing phase with several new directions per iteration and safety steps: the restart blocks of the growing code
            cfg["args"].pop("npt", None)
            cfg["user_params"].update({"growing.ndirs_initial": int(rng.integers(1, n)), "growing.num_new_dirns_each_iter": int(rng.integers(1, 4))})
            if r() < 0.5:
                cfg["user_params"]["growing.safety.full_geom_step"] = True
            cfg["user_params"].pop("growing.safety.reduce_delta", None)
        if r() < 0.15:
            cfg["user_params"].pop("restarts.use_restarts", None)
            cfg["args"].pop("objfun_has_noise", None)
            if cfg["prob"].get("noise"):
                cfg["args"]["objfun_has_noise"] = False
    else:
        cfg = campaign.gen_cfg(rng, deterministic=True, restarts_p=0.6, term_p=0.0, reg_p=0.0, proj_p=0.0, maxfuns=(100, 200),
                               allow=("restarts", "tols"))
        cfg["args"]["rhoend"] = float(10.0 ** rng.uniform(-5, -2)) * (cfg["args"].get("rhobeg") or 0.1)
    return cfg


def reg_threshold_cfg(g, enum=False):
    """Regularised problem whose small-objective threshold lies between sum(r^2) and sum(r^2)+h(x) along the way: the exit test must
    use the regularised objective (the quantity soln.obj reports), with or without logging, with or without averaging."""
    n = int(g.integers(1, 4))
    m = int(g.integers(n, n + 3))
    spec = dict(kind=gen.pick(g, ["linear", "linear", "sinlin"]), n=n, m=m, pseed=int(g.integers(0, 2 ** 31)), cond=5.0, scale=1.0)
    x0 = g.normal(size=n) * 2.0
    lam = float(10.0 ** g.uniform(-1, 0.7))
    reg = dict(type=gen.pick(g, ["l1", "l1", "l2"]), lam=lam)
    cfg = dict(prob=spec, x0=x0.tolist(), lower=None, upper=None, reg=reg, user_params={},
               args=dict(maxfun=int(gen.pick(g, [18, 30])) if enum else int(gen.pick(g, [30, 60])), rhoend=1e-6))
    r0 = gen.make_residual(spec)(x0)
    hfun = gen.make_regulariser(reg, n)[0]
    f0 = float(r0 @ r0) + float(hfun(x0))
    if not enum:
        cfg["user_params"]["model.abs_tol"] = f0 * float(g.uniform(0.05, 0.7))
        cfg["user_params"]["model.rel_tol"] = 0.0
    if g.random() < 0.3:
        cfg["nsamples"] = dict(kind="const", v=int(g.integers(2, 4)))
    if g.random() < 0.3:
        cfg["user_params"]["restarts.use_restarts"] = True
    if g.random() < 0.6:
        cfg["args"]["do_logging"] = False
    return cfg


def expected_rhoend(cfg, nrestarts):
    e = cfg["args"].get("rhoend", 1e-8)
    scale = (cfg.get("user_params") or {}).get("restarts.rhoend_scale", 1.0)
    for _ in range(nrestarts):
        e = scale * e
    return e


def check(run, cfg, res, tag):
    st = res["stats"]
    ctx = run.ctx
    s = run.soln
    viol = []
    if run.livelock:
        viol.append(V("livelock", "[%s] more than %d main-loop iterations without an objective evaluation (solve would never return)" % (
            tag, engine.LIVELOCK_LIMIT), iters=ctx.iters, calls=len(ctx.calls)))
        res["viol"].extend(viol)
        return
    if run.exc is not None or s is None or s.flag == s.EXIT_INPUT_ERROR:
        return
    st["results_checked"] = st.get("results_checked", 0) + 1
    up = cfg.get("user_params") or {}
    h = run.built.h_raw if run.built.h is not None else None
    maxfun = cfg["args"].get("maxfun")
    ncalls = len(ctx.calls)
    nsoft = sum(1 for (_site, ok) in ctx.soft_restarts if ok)
    nhard = max(0, len(ctx.solve_main) - 1)
    # 5. restart accounting
    st["claim|nruns"] = st.get("claim|nruns", 0) + 1
    if s.nruns != 1 + nsoft + nhard:
        viol.append(V("nruns-mismatch", "soln.nruns=%s but %d hard + %d completed soft restarts were performed" % (s.nruns, nhard, nsoft),
                      nruns=s.nruns, hard=nhard, soft=nsoft, sites=[x for x in ctx.soft_restarts]))
    # 1. small objective
    if s.flag == s.EXIT_SUCCESS and "sufficiently small" in s.msg:
        st["claim|sufficiently-small"] = st.get("claim|sufficiently-small", 0) + 1
        tab = oracles.point_table(run, h)
        f0 = tab[1]["obj"] if 1 in tab else np.nan
        if 1 not in tab and not cfg.get("nsamples") and ctx.calls and cfg["args"].get("do_logging") is False:
            # run without logging (no point numbers): without averaging the first call is the evaluation of x0
            f0 = campaign.objective_of_call(ctx.calls[0], h)
            st["claim|sufficiently-small|no-logging"] = st.get("claim|sufficiently-small|no-logging", 0) + 1
        thr = max(up.get("model.abs_tol", 1e-12), up.get("model.rel_tol", 1e-20) * f0) if np.isfinite(f0) else up.get("model.abs_tol", 1e-12)
        if not (s.obj <= thr * (1 + 1e-12)) and np.isfinite(f0):
            viol.append(V("small-objective-claim-false", "'%s' but obj=%r > max(abs_tol, rel_tol*f(x0)) = %r" % (s.msg, float(s.obj), thr),
                          obj=s.obj, thr=thr, f0=f0))
    # 2. rho == rhoend
    if s.flag == s.EXIT_SUCCESS and "rho has reached rhoend" in s.msg:
        st["claim|rho-reached-rhoend"] = st.get("claim|rho-reached-rhoend", 0) + 1
        want = expected_rhoend(cfg, nsoft + nhard)
        ctrl = ctx.controllers[-1] if ctx.controllers else None
        if ctrl is None or ctrl.rho != want:
            viol.append(V("rhoend-claim-false", "'%s' but the last controller has rho=%r, expected rhoend*scale^%d = %r" % (
                s.msg, getattr(ctrl, "rho", None), nsoft + nhard, want), rho=getattr(ctrl, "rho", None), want=want,
                restarts=nsoft + nhard))
    # 3. budget
    if s.flag == s.EXIT_MAXFUN_WARNING:
        st["claim|maxfun"] = st.get("claim|maxfun", 0) + 1
        if not (s.nf == maxfun and ncalls == maxfun):
            viol.append(V("maxfun-claim-false", "max-evaluations warning but nf=%s, calls=%d, maxfun=%s" % (s.nf, ncalls, maxfun)))
    # 4. unsuccessful restarts
    if "unsuccessful restarts" in s.msg:
        st["claim|max-unsuccessful-restarts"] = st.get("claim|max-unsuccessful-restarts", 0) + 1
        mur = up.get("restarts.max_unsuccessful_restarts", 10)
        if not (1 + nsoft + nhard >= mur):
            viol.append(V("unsuccessful-restarts-claim-false", "'%s' but only %d runs were performed (max_unsuccessful_restarts=%d)" % (
                s.msg, 1 + nsoft + nhard, mur)))
    # 6. success => finite
    if s.flag == s.EXIT_SUCCESS:
        st["claim|success-finite"] = st.get("claim|success-finite", 0) + 1
        if not np.isfinite(s.obj):
            tab = oracles.point_table(run, h)
            anyfinite = any(np.isfinite(t["obj"]) for t in tab.values())
            viol.append(V("success-with-nonfinite-objective", "flag 0 ('%s') with obj=%r (%s)" % (
                s.msg, float(s.obj), "a finite point exists in the history" if anyfinite else "no finite point anywhere in the history"),
                known=oracles.d22_key(run, cfg, anyfinite), obj=s.obj, message=s.msg))
    fe = oracles.final_exit(run)
    if fe:
        key = "%s|%s|%s" % (fe[2], fe[0], fe[1][:40])
        st["final_exit|" + key] = st.get("final_exit|" + key, 0) + 1
        res["nontrivial"].append(key + "|" + campaign.restart_mode(cfg) + "|" + oracles.cfg_hash(cfg))
    for v in viol:
        v["msg"] = "[%s] %s" % (tag, v["msg"])
    res["viol"].extend(viol[:5])


def one_run(cfg, res, tag, fail_at=None):
    ctx = engine.Ctx()
    if fail_at is not None:
        ctx.extra["lagrange_fail_at"] = fail_at
    run = gen.run_cfg(cfg, ctx=ctx, timeout=(150 if cfg.get("proj") else 60))
    oracles.common_stats(run, res["stats"])
    check(run, cfg, res, tag)
    if run.timeout:
        res["inconclusive"].append("watchdog")
    return run


def run_case(case):
    res = dict(stats={}, viol=[], nontrivial=[], inconclusive=[])
    typ = case["type"]
    cfg = case.get("cfg") or make_cfg(case["seed"], case["i"], typ)
    if not case.get("cfg") and typ in ("enum", "rand") and (case["i"] % 4 == 1 or (cfg.get("reg") and case["i"] % 2 == 1)):
        # a quarter of the runs (half of the regularised ones) with do_logging=False, as most users call it: the values that go
        # into the log line must not be the values the exit tests use. Reference and derived runs alike.
        cfg["args"]["do_logging"] = False
        gen.without_logging(cfg)
        res["stats"]["runs_without_logging"] = 1
    case["cfg"] = cfg
    ref = one_run(cfg, res, typ)
    nder = 0
    if typ == "enum" and ref.exc is None:
        h = ref.built.h_raw if ref.built.h is not None else None
        for c2 in campaign.exit_index_cfgs(cfg, ref, h=h, max_cases=14) + campaign.budget_index_cfgs(cfg, ref, max_cases=14):
            one_run(c2, res, "%s %s" % (c2["_derived"]["kind"], c2["_derived"].get("M", c2["_derived"].get("j"))))
            nder += 1
    if typ == "fault" and ref.exc is None:
        nf = len(ref.ctx.calls)
        for k in sorted(set([nf, nf - 1, max(2, nf // 2)])):
            if k >= 2:
                c2 = copy.deepcopy(cfg)
                c2["faults"] = {str(k): "nan"}
                one_run(c2, res, "NaN at call %d of %d" % (k, nf))
                nder += 1
                res["stats"]["fault_runs"] = res["stats"].get("fault_runs", 0) + 1
    if typ == "fault" and ref.exc is None:
        # no finite value anywhere (from the first or the second call on), under whatever restart mode the configuration has
        for k0, kind in ((1, "nan_all"), (2, "nan")):
            c2 = copy.deepcopy(cfg)
            c2["persistent"] = [k0, kind]
            c2["args"]["maxfun"] = 60
            one_run(c2, res, "%s persisting from call %d (%s restarts)" % (kind, k0, campaign.restart_mode(cfg)))
            nder += 1
            res["stats"]["persistent_fault_runs"] = res["stats"].get("persistent_fault_runs", 0) + 1
    if typ == "failpoint" and ref.exc is None:
        L = ref.ctx.extra.get("lagrange_calls", 0)
        js = sorted(set(int(v) for v in np.unique(np.linspace(1, max(L, 1), 10).astype(int)))) if L else []
        for j in js:
            one_run(cfg, res, "LinAlgError injected at Lagrange solve %d of %d" % (j, L), fail_at=j)
            nder += 1
            res["stats"]["failpoint_runs"] = res["stats"].get("failpoint_runs", 0) + 1
        for c2 in campaign.failpoint_cfgs(cfg, ref, max_lagrange=0, max_ratio=6):
            one_run(c2, res, "'model increases' verdict injected at acceptance test %d of %d" % (c2["_derived"]["j"], c2["_derived"]["of"]))
            nder += 1
            res["stats"]["failpoint_runs"] = res["stats"].get("failpoint_runs", 0) + 1
    if case["i"] % 80 == 0 or typ == "pinned":
        s = ref.soln
        res["sample"] = dict(case=case["i"], type=typ, prob=cfg["prob"], args=cfg["args"], user_params=cfg["user_params"],
                             derived_runs=nder, calls=len(ref.ctx.calls), flag=getattr(s, "flag", None), msg=getattr(s, "msg", None),
                             nruns=getattr(s, "nruns", None), soft_restarts=[x for x in ref.ctx.soft_restarts][:6],
                             hard_restarts=max(0, len(ref.ctx.solve_main) - 1))
    return res


def finalize(agg):
    st = agg["stats"]
    reasons = []
    recs = {k[11:]: v for k, v in st.items() if k.startswith("final_exit|")}
    if len(recs) < MIN_EXIT_RECORDS[agg["tier"]]:
        reasons.append("only %d distinct (site, flag, message) exit records ended a run (< %d)" % (len(recs), MIN_EXIT_RECORDS[agg["tier"]]))
    for c in ("claim|sufficiently-small", "claim|rho-reached-rhoend", "claim|maxfun", "claim|max-unsuccessful-restarts", "claim|nruns",
              "claim|success-finite"):
        if st.get(c, 0) < 10:
            reasons.append("%s evaluated only %d times" % (c, st.get(c, 0)))
    sites = sorted(set(int(k.split("|")[1]) for k in st if k.startswith("soft_restart_site|")))
    cov = dict(evaluations=int(st.get("runs", 0)), objfun_calls=int(st.get("objfun_calls", 0)), results_checked=int(st.get("results_checked", 0)),
               claims_evaluated={k[6:]: int(v) for k, v in st.items() if k.startswith("claim|")},
               exit_records_ending_a_run=recs, soft_restart_call_sites_reached=sites,
               failpoint_runs=int(st.get("failpoint_runs", 0)),
               failpoints_fired_in={k.split("|")[1]: int(v) for k, v in st.items() if k.startswith("failpoint_fired_in|")},
               soft_restart_call_sites_note="solver.py has 16 call sites of soft_restart; those not listed were not observed in this run and the "
                                            "restart-count claim is decided only for the ones that were",
               restarts_seen=dict(soft=int(st.get("soft_restarts", 0)), hard=int(st.get("hard_restarts", 0))),
               option_keys_exercised=sorted(k[4:] for k in st if k.startswith("opt|")))
    return cov, reasons

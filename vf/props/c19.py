"""C19 - results are reproducible and caller data are never modified."""
import copy
import numpy as np
from .. import engine, gen, oracles, campaign
from ..oracles import V

ID = "C19"
NUM = 19
LEVEL = "exploration"
RULE = ("each configuration (default, bounded incl. x0 outside/on bounds, scaled, convex-constrained incl. x0 projected onto the boundary, "
        "regression npt > n+1, regularised, soft and hard restarts without increase_npt, averaging of a deterministic objective) is solved "
        "three times in one process under different states of numpy's global generator (seed(0); seed(12345); seeded then advanced by a "
        "case-dependent number of draws), interleaved with other problems. Oracle: bit-identical evaluation sequences and identical "
        "results (x, resid, obj, nf, nx, nruns, flag, msg, Jacobian, evaluation numbers); x0 / bounds / user_params equal to pristine "
        "copies afterwards; the third run passes read-only arrays and a mutation-recording dict so an in-place write traps at its source "
        "line. Positive control: configurations with init.random_initial_directions must be seen to differ. Non-trivial = triple with "
        ">= n+2 evaluations; distinct by configuration hash"
        ' Second session: in a third of the triples the second call passes the same values in other calling forms (gen.FORMS) and must reproduce the first call bit for bit; parameters of switched-off options (restarts.max_npt without increase_npt).')
ASSUMPTIONS = ["options documented or coded to draw random directions (random initial directions, growing, momentum steps, increase_npt) are "
               "outside the statement and only used as positive control",
               "objective functions used here are deterministic"]
N = {"quick": 420, "thorough": 7000}
NCTRL = {"quick": 30, "thorough": 200}
CASE_TIMEOUT = {"quick": 300, "thorough": 900}
NSAMPLES = 4
FAMILIES = ["default", "bounded", "bounded", "scaled", "convex", "convex_boundary", "regression", "regularised", "soft", "hard", "averaged",
            "convex_face", "convex_face"]


PINNED = [
    # finding convex-startup-random-repair: box + (inactive) ball, x0 with two coordinates exactly on their upper bounds
    dict(pinned="convex-startup-random-repair",
         cfg={"prob": {"kind": "linear", "n": 4, "m": 4, "pseed": 149195643, "cond": 806.8879005487041, "scale": 5.912313452503683},
              "x0": [0.15684501651885885, -0.08747584212164883, -0.00015187139068828515, 0.22431888162331248], "lower": None, "upper": None,
              "user_params": {}, "args": {"maxfun": 12, "rhoend": 3e-05, "rhobeg": 0.3},
              "proj": [{"type": "ball", "c": [-1.3263586323075185, -0.2830834476722819, -1.2784882587554498, -0.8979650548049438], "r": 9.805465966162574},
                       {"type": "box", "l": [-2.4264142754895652, -1.663449379056393, -2.5568246461202113, -2.0202489912332],
                        "u": [-0.22630298912547187, 1.0972824837118291, -0.00015187139068828515, 0.22431888162331248]}],
              "_family": "convex_face"}),
]


def cases(tier, seed):
    out = [dict(i=N[tier] + NCTRL[tier] + k, seed=seed, type="triple", **p) for k, p in enumerate(PINNED)]
    out += [dict(i=i, seed=seed, type="triple") for i in range(N[tier])]
    out += [dict(i=N[tier] + j, seed=seed, type="control") for j in range(NCTRL[tier])]
    return out


def setup():
    engine.install_core_monitors()
    engine.install_log_tap()
    install_random_repair_probe()


def install_random_repair_probe():
    """Observe whether the start-up for convex constraints (Controller.initialise_coordinate_directions, projections branch) went
    beyond its deterministic stages: it draws ONE np.random.randint(0, 2, n) unconditionally; any further consumption of the
    global generator means the 'random combination of negatives' / 'random directions' repair stages ran (finding
    convex-startup-random-repair). Compared by replaying the single unconditional draw on a copy of the saved state."""
    from dfols.controller import Controller
    if "c19probe" in engine._INSTALLED:
        return
    engine._INSTALLED.add("c19probe")

    def mk(orig):
        def initialise_coordinate_directions(self, *a, **kw):
            c = engine.CTX
            if c is None or not self.model.projections:
                return orig(self, *a, **kw)
            before = np.random.get_state()
            c.extra["_qr_first"] = None
            c.extra["_qr_all"] = []
            try:
                return orig(self, *a, **kw)
            finally:
                allq = c.extra.get("_qr_all") or []
                # rounding residue counted as rank at ANY rank test of this start-up: a diagonal entry above matrix_rank.r_tol (1e-18)
                # but far below any real direction (1e-10*delta)
                lim = 1e-10 * min(1.0, float(self.delta))
                if any(tol <= abs(float(v)) < lim for (rank, diag, tol) in allq for v in diag):
                    c.extra["convex_startup_rounding_residue"] = c.extra.get("convex_startup_rounding_residue", 0) + 1
                after = np.random.get_state()
                sim = np.random.RandomState()
                sim.set_state(before)
                sim.randint(0, 1 + 1, self.n())
                s2 = sim.get_state()
                same = (after[2] == s2[2]) and np.array_equal(after[1], s2[1])
                c.extra["convex_startup_calls"] = c.extra.get("convex_startup_calls", 0) + 1
                if not same:
                    c.extra["convex_startup_random_repair"] = c.extra.get("convex_startup_random_repair", 0) + 1
        return initialise_coordinate_directions
    engine.BINDINGS["Controller.initialise_coordinate_directions"] = engine.instrument_method(Controller, "initialise_coordinate_directions", mk)
    import dfols.controller as dc
    orig_qr = dc.qr_rank

    def qr_rank(*a, **kw):
        out = orig_qr(*a, **kw)
        c = engine.CTX
        if c is not None and isinstance(c.extra.get("_qr_all"), list) and len(c.extra["_qr_all"]) < 2000:
            try:
                c.extra["_qr_all"].append((out[0], np.array(out[1], dtype=float).copy(), float(kw.get("tol", a[1] if len(a) > 1 else 1e-18))))
            except Exception:
                pass
        return out
    engine._PATCHES.append((dc, "qr_rank", orig_qr))
    dc.qr_rank = qr_rank


def make_cfg(seed, i, control=False):
    rng = engine.rng_for(seed, NUM, i)
    r = rng.random
    fam = "control" if control else FAMILIES[i % len(FAMILIES)]
    spec = gen.gen_problem(rng, kinds=("linear", "sinlin", "exp", "rosen"), nmax=4, mmax=6)
    n = spec["n"]
    cfg = dict(prob=spec, x0=(rng.normal(size=n) * 2).tolist(), lower=None, upper=None, user_params={},
               args=dict(maxfun=int(gen.pick(rng, [20, 40, 80])), rhoend=float(10.0 ** rng.integers(-6, -2))))
    up = cfg["user_params"]
    if fam in ("bounded", "scaled", "regression", "soft", "hard", "averaged") and (fam in ("bounded", "scaled") or r() < 0.4):
        box = gen.gen_box(rng, n, scaling_p=(1.0 if fam == "scaled" else 0.0), one_sided_p=(0.0 if fam == "scaled" else 0.3), place_p=0.7)
        cfg.update(x0=box["x0"], lower=box["lower"], upper=box["upper"])
        cfg["args"]["rhobeg"] = box["rhobeg"]
        cfg["args"]["rhoend"] = box["rhobeg"] * float(10.0 ** rng.integers(-6, -2))
        if box["scaling"]:
            cfg["args"]["scaling_within_bounds"] = True
    if fam in ("convex", "convex_boundary", "convex_face"):
        sets, z, margin = gen.gen_convex_sets(rng, n, nsets=int(rng.integers(1, 3)))
        cfg["proj"] = sets
        if fam == "convex":
            cfg["x0"] = (z + 0.3 * margin * rng.normal(size=n) / np.sqrt(n)).tolist()
        else:
            # x0 far outside: solve projects it onto the boundary of the feasible set
            u3 = 0.0 if fam == "convex_face" else r()
            if u3 < 0.25:
                # box (as a projection and / or as bounds) with the start on a face / edge / vertex: some coordinates on their upper
                # bound, some on the lower one, some free. Coordinate steps that project straight back onto x0 make the initial
                # directions linearly dependent, and the start-up has to repair them (deterministically).
                n = int(gen.pick(rng, [3, 3, 4]))
                spec = gen.gen_problem(rng, kinds=("linear", "sinlin", "rosen"), n=n, m=int(rng.integers(n, n + 3)))
                cfg["prob"] = spec
                lo = z[:1].repeat(n) * 0 + rng.normal(size=n) - 1.0
                hi = lo + 2.0 + rng.random(n)
                pat = [int(v) for v in rng.integers(0, 3, size=n)]   # 0 free, 1 on upper, 2 on lower
                if all(p == pat[0] for p in pat):
                    pat[0], pat[-1] = 1, 2
                x0 = lo + (hi - lo) * rng.uniform(0.3, 0.7, size=n)
                for j, p in enumerate(pat):
                    if p == 1:
                        x0[j] = hi[j] + (0.0 if r() < 0.5 else float(rng.random()))
                    elif p == 2:
                        x0[j] = lo[j] - (0.0 if r() < 0.5 else float(rng.random()))
                margin = 1.0
                z = 0.5 * (lo + hi)
                sets[:] = [dict(type="ball", c=z.tolist(), r=float(2.0 * np.linalg.norm(hi - lo)))]
                if r() < 0.5:
                    sets.append(dict(type="box", l=lo.tolist(), u=hi.tolist()))
                else:
                    cfg["lower"], cfg["upper"] = lo.tolist(), hi.tolist()
                cfg["x0"] = x0.tolist()
            elif u3 < 0.7:
                sets[:] = [dict(type="ball", c=z.tolist(), r=float(margin))]
                e = np.zeros(n)
                e[int(rng.integers(n))] = float(gen.pick(rng, [-1.0, 1.0]))
                cfg["x0"] = (z + 3.0 * margin * e).tolist()     # projects exactly onto a pole of the ball
            else:
                cfg["x0"] = (z + margin * rng.normal(size=n) * 5).tolist()
        cfg["args"].update(rhobeg=float(0.3 * margin), rhoend=float(0.3 * margin * 1e-4), maxfun=int(gen.pick(rng, [12, 20])))
    if fam == "regression":
        cap = (n + 1) * (n + 2) // 2      # largest point count the (deterministic) coordinate initialisation supports
        cfg["args"]["npt"] = int(rng.integers(n + 2, 2 * n + 2)) if (r() < 0.5 or cap <= n + 2) else int(gen.pick(rng, [cap, cap, int(rng.integers(n + 2, cap + 1))]))
        cfg["args"]["npt"] = max(n + 1, min(cfg["args"]["npt"], cap))
        cfg["args"]["maxfun"] = max(cfg["args"]["maxfun"], cfg["args"]["npt"] + 10)
        if r() < 0.5:
            up["regression.num_extra_steps"] = int(rng.integers(1, 3))
    if fam == "regularised":
        cfg["reg"] = dict(type=gen.pick(rng, ["l1", "l2"]), lam=float(10.0 ** rng.uniform(-2, 0)))
        cfg["args"]["maxfun"] = 20
        if r() < 0.4:
            x0 = np.array(cfg["x0"])
            cfg["lower"] = (x0 - 0.5 - rng.random(n)).tolist()
            cfg["upper"] = (x0 + 0.5 + rng.random(n)).tolist()
    if fam in ("soft", "hard"):
        up["restarts.use_restarts"] = True
        if fam == "hard":
            up["restarts.use_soft_restarts"] = False
            if r() < 0.5:
                up["restarts.hard.use_old_rk"] = False
        cfg["args"]["rhoend"] = float((cfg["args"].get("rhobeg") or 0.1) * 10.0 ** rng.uniform(-3, -1))
        cfg["args"]["maxfun"] = 80
        g2 = np.random.default_rng([int(seed), NUM, int(i), 9])
        if g2.random() < 0.5:
            # parameters of options that are OFF (documented no-ops): a larger restarts.max_npt without restarts.increase_npt, amounts
            # for it - none of them may switch the random point generation of that option on
            up["restarts.max_npt"] = int((cfg["args"].get("npt") or n + 1) + g2.integers(1, n + 3))
            if g2.random() < 0.5:
                up["restarts.increase_npt_amt"] = int(g2.integers(1, 4))
    if fam == "averaged":
        cfg["nsamples"] = dict(kind=gen.pick(rng, ["const", "iter"]), v=2)
    if fam == "control":
        up["init.random_initial_directions"] = True
        cfg["args"]["maxfun"] = 20
    if fam in ("default", "bounded", "scaled", "regression", "averaged") and r() < 0.25:
        # budgets smaller than the initial set (the run ends inside the initialisation): nothing random may be switched on by that
        npt_ = cfg["args"].get("npt") or n + 1
        cfg["args"]["maxfun"] = int(rng.integers(1, npt_ + 1))
    if r() < 0.2 and fam != "regularised":
        up["logging.save_diagnostic_info"] = True
        up["logging.save_poisedness"] = False
    cfg["_family"] = fam
    return cfg


class SpyDict(dict):
    """user_params spy: any mutating method is recorded."""

    def __init__(self, *a, **k):
        dict.__init__(self, *a, **k)
        self.mutations = []

    def _m(name):
        def f(self, *a, **k):
            self.mutations.append(name)
            return getattr(dict, name)(self, *a, **k)
        return f
    for _n in ("__setitem__", "__delitem__", "pop", "popitem", "clear", "update", "setdefault"):
        locals()[_n] = _m(_n)
    del _n, _m


def one(cfg, state_kind, draws, readonly, shared=None):
    ctx = engine.Ctx()
    b = gen.build(cfg, ctx)
    kw = dict(b.kw)
    if shared is not None and "projections" in kw:
        # the caller keeps ONE list of projections and passes the same object to every call (repeated invocation in one process)
        if "list" not in shared:
            shared["list"] = kw["projections"]
            shared["len0"] = len(kw["projections"])
        kw["projections"] = shared["list"]
    x0 = b.x0 if "x0_view" in b.forms else b.x0.copy()       # a view stays the caller's view
    pristine = dict(x0=x0.copy())
    if "bounds" in kw:
        lo, hi = kw["bounds"]
        if "bounds_view" not in b.forms:
            lo = None if lo is None else lo.copy()
            hi = None if hi is None else hi.copy()
        kw["bounds"] = (lo, hi)
        pristine["lo"] = None if lo is None else lo.copy()
        pristine["hi"] = None if hi is None else hi.copy()
    up = SpyDict(kw.get("user_params") or {})
    kw["user_params"] = up
    pristine["up"] = dict(up)
    if readonly:
        x0.setflags(write=False)
        for a in kw.get("bounds", ()):
            if a is not None:
                a.setflags(write=False)
    if state_kind == 0:
        np.random.seed(0)
    elif state_kind == 1:
        np.random.seed(12345)
    else:
        np.random.seed(777)
        np.random.normal(size=draws)
        np.random.randint(0, 2, size=draws)
    run = engine.run_solve(b.objfun, x0, ctx=ctx, timeout=120, solve_kwargs=kw)
    run.built, run.cfg = b, cfg
    mod = []
    if not np.array_equal(x0, pristine["x0"]):
        mod.append("x0 changed from %s to %s" % (pristine["x0"].tolist(), x0.tolist()))
    if "bounds" in kw:
        for nm, a, p in (("lower", kw["bounds"][0], pristine["lo"]), ("upper", kw["bounds"][1], pristine["hi"])):
            if a is not None and not np.array_equal(a, p):
                mod.append("%s bound array changed" % nm)
    if dict(up) != pristine["up"] or up.mutations:
        mod.append("user_params mutated (%s)" % (up.mutations or "content differs"))
    for v in oracles.form_violations(run):
        mod.append(v["msg"])
    return run, mod


def deterministic_repair_impossible(cfg, x_start):
    """Geometry test made in the harness, independent of the code under test: from the (projected) start, can ANY choice of signs
    give n linearly independent displacements P(x + s_k*delta*e_k) - x ? If not, no deterministic 'try the negative direction'
    repair can complete and the start-up has to use its random stages (second cause of finding convex-startup-random-repair)."""
    import itertools
    from .c09 import harness_dykstra
    n = len(x_start)
    lo = gen.arr(cfg.get("lower"), n, -1e20) if cfg.get("lower") is not None else np.full(n, -1e20)
    hi = gen.arr(cfg.get("upper"), n, 1e20) if cfg.get("upper") is not None else np.full(n, 1e20)
    P = [gen.make_projection(s_) for s_ in cfg["proj"]] + [lambda w: np.minimum(np.maximum(w, lo), hi)]
    delta = min(1.0, float(cfg["args"].get("rhobeg") or 0.1 * max(1.0, float(np.max(np.abs(x_start))))))
    rows = {}
    for k in range(n):
        for sgn in (1.0, -1.0):
            e = np.zeros(n); e[k] = sgn * delta
            y, _ = harness_dykstra(P, x_start + e, 1000, 1e-14)
            rows[(k, sgn)] = y - x_start
    for signs in itertools.product((1.0, -1.0), repeat=n):
        D = np.array([rows[(k, signs[k])] for k in range(n)])
        sv = np.linalg.svd(D / delta, compute_uv=False)
        if sv[-1] > 1e-8:
            return False
    return True


def signature(run):
    s = run.soln
    seq = [c["x"].tobytes() for c in run.ctx.calls]
    if s is None:
        return seq, ("exception", type(run.exc).__name__, str(run.exc)[:80])
    fields = []
    for f in ("x", "resid", "jacobian", "jacmin_eval_nums"):
        a = getattr(s, f)
        fields.append(None if a is None else np.asarray(a).tobytes())
    fields += [repr(float(s.obj)) if s.obj is not None else None, s.nf, s.nx, s.nruns, s.flag, s.msg, s.xmin_eval_num]
    return seq, tuple(fields)


def run_case(case):
    res = dict(stats={}, viol=[], nontrivial=[], inconclusive=[])
    st = res["stats"]
    control = case["type"] == "control"
    cfg = case.get("cfg") or make_cfg(case["seed"], case["i"], control)
    case["cfg"] = cfg
    viol = res["viol"]
    runs = []
    shared = {} if cfg.get("proj") else None
    formed = None
    if not control and case["i"] % 3 == 1:
        # the second call passes the SAME values in another legitimate form (strided views, numpy scalars in user_params) to a residual
        # function that behaves differently towards its argument / return value (returns a list or one re-used buffer, overwrites or
        # keeps the x it was handed): the sequence and the result must still be those of the first call, bit for bit
        import copy
        forms = gen.sample_forms(np.random.default_rng([int(case["seed"]), NUM, int(case["i"]), 8]))
        formed = copy.deepcopy(cfg)
        formed["_forms"] = forms
        st["triples_with_formed_call"] = 1
        for f_ in forms:
            st["form|" + f_] = st.get("form|" + f_, 0) + 1
    for k in range(3):
        run, mod = one(formed if (formed is not None and k == 1) else cfg, k, 1 + (case["i"] * 7) % 23, readonly=(k == 2 and not control), shared=shared)
        if k == 0 and shared is not None and run.exc is None:
            # between run 1 and run 2: a DIFFERENT call that re-uses the caller's list (other bounds). Whatever it does, the
            # repeat of the first call afterwards must still give the first call's sequence
            import copy
            c2 = copy.deepcopy(cfg)
            x0c = np.array(c2["x0"], dtype=float)
            w = 2.5 * float(c2["args"].get("rhobeg") or 0.1)
            c2["lower"] = (x0c - w).tolist()
            c2["upper"] = (x0c + w * 1.5).tolist()
            c2["args"]["maxfun"] = min(int(c2["args"].get("maxfun") or 20), 12)
            other, _ = one(c2, 1, 3, readonly=False, shared=shared)
            st["interleaved_other_calls"] = st.get("interleaved_other_calls", 0) + 1
        oracles.common_stats(run, st)
        if run.timeout:
            res["inconclusive"].append("watchdog")
            return res
        for m in mod:
            viol.append(V("caller-data-modified", "run %d: %s" % (k + 1, m)))
        if run.exc is not None and k == 2 and not control and isinstance(run.exc, ValueError) and "read-only" in str(run.exc):
            viol.append(V("in-place-write-trapped", "solve wrote into a caller array (passed read-only): %s at %s" % (run.exc, engine.exc_line(run.exc)),
                          where=engine.exc_line(run.exc)))
            return res
        runs.append(run)
    sigs = [signature(r) for r in runs]
    st["family|" + cfg["_family"]] = 1
    st["triples"] = 1
    differs = None
    for k in (1, 2):
        if sigs[k][0] != sigs[0][0]:
            j = next((t for t, (a, b) in enumerate(zip(sigs[0][0], sigs[k][0])) if a != b), min(len(sigs[0][0]), len(sigs[k][0])))
            differs = "evaluation sequences of run 1 and run %d differ from call %d on (%d vs %d calls)" % (k + 1, j + 1, len(sigs[0][0]), len(sigs[k][0]))
            break
        if sigs[k][1] != sigs[0][1]:
            differs = "results of run 1 and run %d differ although the evaluation sequences are identical" % (k + 1)
            break
    if control:
        st["control_triples"] = 1
        if differs:
            st["control_seen_to_differ"] = 1
        return res
    nrep = sum(int(r_.ctx.extra.get("convex_startup_random_repair", 0)) for r_ in runs)
    if cfg.get("proj"):
        st["convex_startups_observed"] = sum(int(r_.ctx.extra.get("convex_startup_calls", 0)) for r_ in runs)
        if nrep:
            st["triples_with_random_repair_stage"] = 1
    if differs:
        nres = sum(int(r_.ctx.extra.get("convex_startup_rounding_residue", 0)) for r_ in runs)
        # the finding is the random stage entered BECAUSE rounding residue was counted as rank; the same stage entered on exact
        # zeros (which the deterministic repair handles on the unchanged tree) is something else and is reported
        blocked = False
        if cfg.get("proj") and nrep > 0 and nres == 0 and cfg["prob"]["n"] <= 5 and runs[0].ctx.calls:
            try:
                blocked = deterministic_repair_impossible(cfg, np.array(runs[0].ctx.calls[0]["x"], dtype=float))
            except Exception:
                blocked = False
            if blocked:
                st["random_repair_because_no_sign_choice_is_independent"] = 1
        known = "convex-startup-random-repair" if (cfg.get("proj") and nrep > 0 and (nres > 0 or blocked)) else None
        viol.append(V("not-reproducible", "[%s] %s (global RNG states: seed(0) / seed(12345) / advanced)%s" % (
            cfg["_family"], differs, "; the convex start-up ran its random repair stage in %d of the runs" % nrep if nrep else ""),
            known=known, family=cfg["_family"]))
    if len(runs[0].ctx.calls) >= cfg["prob"]["n"] + 2:
        res["nontrivial"].append(oracles.cfg_hash(cfg))
    if runs[0].exc is not None:
        st["triples_all_raising"] = 1
    if case["i"] % 60 == 0:
        s = runs[0].soln
        res["sample"] = dict(case=case["i"], family=cfg["_family"], prob=cfg["prob"], args=cfg["args"], user_params=cfg["user_params"],
                             evaluations=[len(r.ctx.calls) for r in runs], identical=(differs is None), msg=getattr(s, "msg", None))
    return res


def finalize(agg):
    st = agg["stats"]
    reasons = []
    for f in set(FAMILIES):
        if st.get("family|" + f, 0) < 5:
            reasons.append("family %s exercised %d times" % (f, st.get("family|" + f, 0)))
    if st.get("control_seen_to_differ", 0) < 0.5 * max(1, st.get("control_triples", 0)):
        reasons.append("positive control: only %d of %d random-initialisation triples were seen to differ (monitor may be blind)" % (
            st.get("control_seen_to_differ", 0), st.get("control_triples", 0)))
    nexc = st.get("triples_all_raising", 0)
    if nexc > 0.05 * max(1, st.get("triples", 0)):
        reasons.append("%d triples raised" % nexc)
    cov = dict(triples=int(st.get("triples", 0)), runs=int(st.get("runs", 0)), objfun_calls=int(st.get("objfun_calls", 0)),
               families={k[7:]: int(v) for k, v in st.items() if k.startswith("family|")},
               positive_control=dict(triples=int(st.get("control_triples", 0)), seen_to_differ=int(st.get("control_seen_to_differ", 0))))
    return cov, reasons

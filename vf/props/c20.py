"""C20 - results survive a JSON round trip and always print."""
import json
import math
import numpy as np
from .. import engine, gen, oracles, campaign
from ..oracles import V

ID = "C20"
NUM = 20
LEVEL = "exploration"
RULE = ("results harvested from the solver over the option space (all non-input-error flags reachable: budget / small objective / rhoend / "
        "slow / false success / linear-algebra / evaluation error / restarts), n in {1..12, 25}, m in {1..120} (both sides of the 100/200 "
        "printing thresholds), Jacobian present / None (exits during initialisation, tiny budgets, exit at x0), diagnostics on/off incl. "
        "zero-row tables, NaN / inf in resid, obj and the table (injected faults), plus synthetic OptimResults built directly with "
        "NaN / None fields. Oracle: str(s) works; to_dict() -> json.dumps(allow_nan=False) -> json.loads -> from_dict reproduces every field "
        "(arrays with NaN==NaN, dtypes of integer arrays, counters, flag, message, evaluation numbers, Jacobian None preserved, table "
        "columns in order, shape and every cell with None==NaN) and str(reloaded) == str(original); replace_nan=False round-trips "
        "through non-strict JSON. Non-trivial = result with a Jacobian, a diagnostic table, a NaN entry or a size beyond a printing "
        "threshold; distinct by (flag, features, configuration hash)"
        ' Second session: residual functions returning float32 / integer arrays / lists of ints; strict dtype equality of every array field; budgets expiring between the samples of a point; extra regression steps under averaging.')
ASSUMPTIONS = ["row labels of the reloaded diagnostic table come back as strings ('0','1',..) because JSON object keys are strings: treated as "
               "representation, recorded, not raised",
               "findings: +-inf values are not strict JSON (D17); logging.save_xk/save_rk put arrays in the table (D18)"]
N = {"quick": 2400, "thorough": 30000}
NSYN = {"quick": 300, "thorough": 4000}
CASE_TIMEOUT = {"quick": 200, "thorough": 600}
NSAMPLES = 5

PINNED = [
    dict(pinned="table-holds-arrays-with-save_xk-save_rk",
         cfg=dict(prob=dict(kind="rosen", n=2, m=2, pseed=1), x0=[-1.2, 1.0], lower=None, upper=None, args=dict(maxfun=30),
                  user_params={"logging.save_diagnostic_info": True, "logging.save_xk": True, "logging.save_rk": True,
                               "logging.save_poisedness": False})),
    dict(pinned="strict-json-fails-on-infinite-values",
         cfg=dict(prob=dict(kind="rosen", n=2, m=2, pseed=1), x0=[-1.2, 1.0], lower=None, upper=None, args=dict(maxfun=30),
                  user_params={"logging.save_diagnostic_info": True, "logging.save_poisedness": False}, faults={"6": "1e200"})),
]


def cases(tier, seed):
    out = []
    i = 0
    for p in PINNED:
        out.append(dict(i=i, seed=seed, type="pinned", **p)); i += 1
    for _ in range(N[tier]):
        out.append(dict(i=i, seed=seed, type="harvest")); i += 1
    for _ in range(NSYN[tier]):
        out.append(dict(i=i, seed=seed, type="synthetic")); i += 1
    return out


def setup():
    engine.install_core_monitors()
    engine.install_log_tap()


def make_cfg(seed, i):
    rng = engine.rng_for(seed, NUM, i)
    r = rng.random
    fam = i % 6
    nmax, mmax = 5, 8
    cfg = campaign.gen_cfg(rng, noise_p=0.25, averaging_p=0.2, box_p=0.3, proj_p=0.03, reg_p=0.04, restarts_p=0.5, nmax=nmax, mmax=mmax,
                           maxfuns=(1, 2, 3, 6, 12, 30, 60, 120), term_p=0.5)
    up = cfg["user_params"]
    if fam == 1:
        # sizes beyond the printing thresholds
        n = int(gen.pick(rng, [8, 12, 25]))
        m = int(gen.pick(rng, [9, 40, 99, 100, 101, 120]))
        cfg = dict(prob=dict(kind=gen.pick(rng, ["linear", "sinlin"]), n=n, m=m, pseed=int(rng.integers(0, 2 ** 31)), cond=10.0, scale=1.0),
                   x0=(rng.normal(size=n)).tolist(), lower=None, upper=None, user_params={},
                   args=dict(maxfun=int(gen.pick(rng, [3, n, n + 2, 2 * n + 5])), rhoend=1e-4))
        up = cfg["user_params"]
        if r() < 0.3:
            cfg["args"]["npt"] = int(min(2 * n + 1, n + 1 + rng.integers(0, n)))
        if i % 60 == 1:
            # 100 or more interpolation points: the third printing threshold (the list of Jacobian evaluation points is elided)
            n = 52
            cfg["prob"].update(n=n, m=int(gen.pick(rng, [60, 101])))
            cfg["x0"] = (rng.normal(size=n)).tolist()
            cfg["args"] = dict(npt=int(gen.pick(rng, [100, 2 * n + 1])), maxfun=2 * n + 6, rhoend=1e-4)
    if fam == 2:
        cfg["faults"] = {str(int(rng.integers(1, 25))): gen.pick(rng, ["nan", "nan", "inf", "-inf", "1e200"])}
        if r() < 0.3:
            # no finite value anywhere: the returned resid / obj themselves are NaN
            cfg.pop("faults")
            cfg["persistent"] = [1, gen.pick(rng, ["nan", "nan_all"])]
    if fam == 3:
        up["model.abs_tol"] = 1e6           # exit at x0
    g2 = np.random.default_rng([int(seed), NUM, int(i), 4])
    if fam in (3, 4) and g2.random() < 0.5 and not cfg["prob"].get("noise") and not cfg.get("faults") and not cfg.get("persistent"):
        # what the residual function returns is not a float64 array (single precision / integer array / list of ints): every array of
        # the result must still be float64 before and after the round trip, also when the run stops at x0
        cfg["_ret_dtype"] = gen.pick(g2, ["float32", "int", "intlist"])
    if cfg.get("nsamples") and g2.random() < 0.7:
        # budgets that expire between the samples of a point, in whatever step is being taken
        cfg["args"]["maxfun"] = int(g2.integers(1, 70))
    if i % 12 == 5 and cfg["prob"]["n"] >= 2 and not cfg.get("proj") and not cfg.get("reg"):
        # extra regression steps of both kinds under averaging with odd budgets (each step method has its own early-exit save)
        n_ = cfg["prob"]["n"]
        cfg["args"]["npt"] = int(n_ + 2 + g2.integers(0, n_))
        up["regression.num_extra_steps"] = int(g2.integers(1, 4))
        up["regression.momentum_extra_steps"] = bool(g2.random() < 0.6)
        for k_ in [k_ for k_ in up if k_.startswith("growing.") or k_.startswith("restarts.")]:
            up.pop(k_)
        cfg["nsamples"] = dict(kind="const", v=int(g2.integers(2, 4)))
        cfg["args"]["maxfun"] = int(g2.integers(2 * n_ + 6, 70))
        cfg["args"].pop("objfun_has_noise", None)
    if r() < 0.45 and not cfg.get("reg"):
        up["logging.save_diagnostic_info"] = True
        up["logging.save_poisedness"] = bool(r() < 0.15)
    campaign.maybe_failpoint(cfg, rng, p=0.08)
    return cfg


def nan_eq(a, b):
    if a is None or b is None:
        return a is None and b is None
    a, b = np.asarray(a), np.asarray(b)
    if a.shape != b.shape:
        return False
    if a.dtype.kind in "fc" or b.dtype.kind in "fc":
        af, bf = a.astype(float), b.astype(float)
        return bool(np.all((af == bf) | (np.isnan(af) & np.isnan(bf))))
    return bool(np.array_equal(a, b))


def scrub_inf(o):
    if isinstance(o, dict):
        return {k: scrub_inf(v) for k, v in o.items()}
    if isinstance(o, list):
        return [scrub_inf(v) for v in o]
    if isinstance(o, float) and math.isinf(o):
        return 1.0
    return o


def cell_eq(a, b):
    na = a is None or (isinstance(a, float) and math.isnan(a))
    nb = b is None or (isinstance(b, float) and math.isnan(b))
    if na or nb:
        return na and nb
    try:
        return bool(a == b)
    except Exception:
        return False


def round_trip(s, viol, st, label, cfg=None):
    """All clauses of C20 for one result object."""
    from dfols.solver import OptimResults
    up = (cfg or {}).get("user_params") or {}
    arrays_in_table = bool(up.get("logging.save_xk") or up.get("logging.save_rk"))

    def add(kind, msg, known=None, **w):
        if len(viol) < 6:
            viol.append(V(kind, "[%s] %s" % (label, msg), known=known, **w))
    st["results_checked"] = st.get("results_checked", 0) + 1
    try:
        text = str(s)
    except Exception as e:
        add("str-raises", "str(result) raised %r" % (e,))
        return
    try:
        d = s.to_dict()
    except Exception as e:
        add("to_dict-raises", "to_dict() raised %r" % (e,), known=("table-holds-arrays-with-save_xk-save_rk" if arrays_in_table else None))
        return
    try:
        enc = json.dumps(d, allow_nan=False)
    except (ValueError, TypeError) as e:
        # classify by mechanism: only +-inf values / only the documented save_xk-save_rk limitation
        known = None
        if arrays_in_table:
            known = "table-holds-arrays-with-save_xk-save_rk"
        else:
            try:
                json.dumps(scrub_inf(d), allow_nan=False)
                known = "strict-json-fails-on-infinite-values"
            except Exception:
                known = None
        add("not-strict-json", "json.dumps(to_dict(), allow_nan=False) raised %s: %s" % (type(e).__name__, str(e)[:80]), known=known)
        if known is None:
            return
        try:
            enc = json.dumps(d if not arrays_in_table else None)
        except Exception:
            return
        if arrays_in_table:
            return
    try:
        s2 = OptimResults.from_dict(json.loads(enc))
    except Exception as e:
        add("from_dict-raises", "from_dict(json.loads(...)) raised %r" % (e,))
        return
    for f in ("x", "resid", "jacobian", "jacmin_eval_nums"):
        a, b = getattr(s, f), getattr(s2, f)
        if not nan_eq(a, b):
            add("field-differs", "field %s not reproduced: %s -> %s" % (f, engine.short(np.asarray(a)) if a is not None else None,
                                                                         engine.short(np.asarray(b)) if b is not None else None), field=f)
        elif a is not None and np.asarray(a).dtype != np.asarray(b).dtype:
            add("field-dtype-differs", "field %s: dtype %s -> %s" % (f, np.asarray(a).dtype, np.asarray(b).dtype), field=f)
    for f in ("nf", "nx", "nruns", "flag", "msg", "xmin_eval_num"):
        a, b = getattr(s, f), getattr(s2, f)
        if not (a == b):
            add("field-differs", "field %s: %r -> %r" % (f, a, b), field=f)
    if not cell_eq(float(s.obj), (float("nan") if s2.obj is None else float(s2.obj))):
        add("field-differs", "obj: %r -> %r" % (s.obj, s2.obj), field="obj")
    t1, t2 = s.diagnostic_info, s2.diagnostic_info
    if (t1 is None) != (t2 is None):
        add("table-presence", "diagnostic table %s -> %s" % ("present" if t1 is not None else None, "present" if t2 is not None else None))
    elif t1 is not None:
        st["tables_round_tripped"] = st.get("tables_round_tripped", 0) + 1
        if len(t1) == 0:
            st["zero_row_tables"] = st.get("zero_row_tables", 0) + 1
        if list(t1.columns) != list(t2.columns):
            add("table-columns", "table columns %d -> %d (%s...)" % (len(t1.columns), len(t2.columns), list(t2.columns)[:4]))
        elif t1.shape != t2.shape:
            add("table-shape", "table shape %s -> %s" % (t1.shape, t2.shape))
        else:
            if len(t1) and list(t2.index) != list(t1.index):
                st["row_labels_became_strings"] = st.get("row_labels_became_strings", 0) + 1
            v1, v2 = t1.to_numpy(dtype=object), t2.to_numpy(dtype=object)
            for (ri, ci), a in np.ndenumerate(v1):
                if not cell_eq(a, v2[ri, ci]):
                    add("table-cell", "table cell [%d, %s]: %r -> %r" % (ri, t1.columns[ci], a, v2[ri, ci]))
                    break
                if isinstance(a, float) and math.isnan(a) and v2[ri, ci] is None:
                    # "with None mapped back to NaN": a NaN that went out as null must come back as NaN (pandas does that by itself for
                    # columns that also hold numbers; a column that is NaN in every row comes back as an object column of None)
                    add("table-cell-none-not-mapped-back", "table cell [%d, %s]: NaN came back as None (column is NaN in every row)" % (ri, t1.columns[ci]))
                    break
    try:
        text2 = str(s2)
        if text2 != text:
            l1, l2 = text.splitlines(), text2.splitlines()
            diff = next(((a, b) for a, b in zip(l1, l2) if a != b), (None, None))
            add("str-differs", "str(reloaded) != str(original): %r vs %r" % diff)
    except Exception as e:
        add("str-raises", "str(reloaded result) raised %r" % (e,))
    # replace_nan=False must still be JSON-serialisable (non-strict) and round-trip
    try:
        s3 = OptimResults.from_dict(json.loads(json.dumps(s.to_dict(replace_nan=False))))
        if not nan_eq(s.x, s3.x) or not nan_eq(s.resid, s3.resid):
            add("field-differs", "replace_nan=False round trip changed x/resid")
    except Exception as e:
        add("to_dict-raises", "replace_nan=False: %r" % (e,), known=("table-holds-arrays-with-save_xk-save_rk" if arrays_in_table else None))


def features(s):
    f = []
    if s.jacobian is not None:
        f.append("jac")
    else:
        f.append("nojac")
    if s.diagnostic_info is not None:
        f.append("table" if len(s.diagnostic_info) else "empty-table")
    with np.errstate(all="ignore"):
        if s.resid is not None and np.isnan(np.asarray(s.resid, dtype=float)).any() or (isinstance(s.obj, float) and math.isnan(s.obj)):
            f.append("nan")
    if s.resid is not None and np.size(s.resid) >= 100:
        f.append("m>=100")
    if s.jacobian is not None and np.size(s.jacobian) >= 200:
        f.append("jac>=200")
    if s.nruns > 1:
        f.append("restarted")
    return f


def synthetic(rng):
    from dfols.solver import OptimResults
    n = int(rng.integers(1, 30))
    m = int(gen.pick(rng, [1, 3, 50, 99, 100, 150]))
    x = rng.normal(size=n)
    r = rng.normal(size=m)
    if rng.random() < 0.4:
        r[rng.integers(m)] = np.nan
    if rng.random() < 0.2:
        x[rng.integers(n)] = np.nan
    obj = float(np.dot(r, r))
    u = rng.random()
    if u < 0.08:
        # "falsy" numbers that are perfectly good values: exact zeros (a zero-residual solution), a zero in x, flag 0, nf/nx small
        r = np.zeros(m); obj = 0.0
        if rng.random() < 0.5:
            x = np.zeros(n)
    elif u < 0.12:
        obj = float(gen.pick(rng, [-0.0, 5e-324, 1e-300, 1.7976931348623157e308]))
    jac = rng.normal(size=(m, n)) if rng.random() < 0.6 else None
    if jac is not None and u < 0.03:
        jac = np.zeros((m, n))
    if jac is not None and rng.random() < 0.3:
        jac[rng.integers(m), rng.integers(n)] = np.nan
    en = None if (jac is None or rng.random() < 0.2) else rng.permutation(200)[:n + 1].astype(int)
    flag = int(gen.pick(rng, [-4, -3, -2, 0, 1, 2, 3, 4, 5]))
    return OptimResults(x, r, obj, jac, int(rng.integers(1, 500)), int(rng.integers(1, 500)), int(rng.integers(1, 5)), flag,
                        gen.pick(rng, ["Success: rho has reached rhoend", "Warning (max evals): Objective has been called MAXFUN times",
                                       "Error (linear algebra): Singular matrix", "msg with \"quotes\" and unicode ρ"]),
                        int(rng.integers(1, 400)), en)


def run_case(case):
    res = dict(stats={}, viol=[], nontrivial=[], inconclusive=[])
    st = res["stats"]
    if case["type"] == "synthetic":
        rng = engine.rng_for(case["seed"], NUM, case["i"], 1)
        s = synthetic(rng)
        round_trip(s, res["viol"], st, "synthetic")
        st["synthetic_results"] = 1
        res["nontrivial"].append("syn|%d" % case["i"])
        if case["i"] % 100 == 0:
            res["sample"] = dict(kind="synthetic", flag=s.flag, n=int(np.size(s.x)), m=int(np.size(s.resid)), jacobian=(None if s.jacobian is None else list(s.jacobian.shape)),
                                 nan_in_resid=bool(np.isnan(s.resid).any()))
        return res
    cfg = case.get("cfg") or make_cfg(case["seed"], case["i"])
    case["cfg"] = cfg
    run = gen.run_cfg(cfg, timeout=120)
    oracles.common_stats(run, st)
    if run.timeout:
        res["inconclusive"].append("watchdog")
        return res
    s = run.soln
    if run.exc is not None or s is None or s.flag == s.EXIT_INPUT_ERROR:
        return res
    round_trip(s, res["viol"], st, "flag %d: %s" % (s.flag, s.msg[:40]), cfg)
    fs = features(s)
    st["flag_checked|%d" % s.flag] = 1
    for f in fs:
        st["feature|" + f] = 1
    res["nontrivial"].append("%d|%s|%s" % (s.flag, ",".join(fs), oracles.cfg_hash(cfg)))
    if case["i"] % 120 == 0 or case["type"] == "pinned":
        res["sample"] = dict(kind=case["type"], case=case["i"], prob=cfg["prob"], args=cfg["args"], user_params=cfg["user_params"],
                             flag=s.flag, msg=s.msg, features=fs, table_rows=(None if s.diagnostic_info is None else len(s.diagnostic_info)))
    return res


def finalize(agg):
    st = agg["stats"]
    reasons = []
    flags = sorted(int(k.split("|")[1]) for k in st if k.startswith("flag_checked|"))
    for f in (-4, -3, 0, 1, 2):
        if f not in flags:
            reasons.append("no harvested result with flag %d" % f)
    for f in ("jac", "nojac", "table", "empty-table", "nan", "m>=100", "jac>=200", "restarted"):
        if st.get("feature|" + f, 0) < 3:
            reasons.append("feature %s harvested only %d times" % (f, st.get("feature|" + f, 0)))
    cov = dict(results_checked=int(st.get("results_checked", 0)), synthetic_results=int(st.get("synthetic_results", 0)),
               flags_harvested={str(f): int(st["flag_checked|%d" % f]) for f in flags},
               features={k[8:]: int(v) for k, v in st.items() if k.startswith("feature|")},
               tables_round_tripped=int(st.get("tables_round_tripped", 0)), zero_row_tables=int(st.get("zero_row_tables", 0)),
               observation_row_labels_became_strings=int(st.get("row_labels_became_strings", 0)))
    return cov, reasons

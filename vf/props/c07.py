"""C07 - solve always returns a well-formed result; bad input is reported, not raised."""
import re
import os
import copy
import numpy as np
from .. import engine, gen, oracles, campaign
from ..oracles import V

ID = "C07"
NUM = 7
LEVEL = "fault_enumeration"
RULE = ("ENUMERATED (complete): (i) every input-validation class of solve (non-positive / inconsistent radii, npt < n+1, maxfun <= 0, too "
        "narrow bounds, shape mismatches, h without prox_uh / lh / with non-positive lh, the four contradictory option pairs, both noise "
        "levels) singly and in pairs; (ii) EVERY key of the live parameter list (read from the tree) x value classes {default, in-range, "
        "table boundary, out-of-range, wrong type} on a fixed problem set, judged against an independent table written from the meaning "
        "each key has in docs/advanced.rst (the repository's own range table only supplies the boundary values, for which the demand is "
        "the weak one: no exception, no livelock, documented flag); (iii) the EXIT_* names parsed from docs/userguide.rst must exist on "
        "results; (iv) unknown keys (misspelt, empty, prefix, non-string) must raise exactly ValueError before any evaluation. SAMPLED: "
        "valid calls over random small problems and the whole option space incl. rarely used switches, watched for exceptions, livelock "
        "(> 10,000 iterations without an evaluation), undocumented flags, empty messages, str() failures. Non-trivial/distinct = "
        "(class, key, value, problem) tuples and sampled configuration hashes"
        ' Second session: 700 (quick) / 14,000 (thorough) valid calls borrowed from fourteen generator families of the other solver-level checks (which count an exception out of solve() as not theirs); regression cases for repaired findings.')
ASSUMPTIONS = ["expectation table for parameter values written by hand from docs/advanced.rst (type; count >= 0 or >= 1; tolerance >= 0; fraction in "
               "[0,1]; factor >= 1); clearly wrong types only (str, list, None where not allowed, non-integral float for counts)",
               "findings are keyed by mechanism: raise site / (key, boundary value) / configuration, see KNOWN_FINDINGS.txt"]
NSAMPLED = {"quick": 500, "thorough": 8000}
CASE_TIMEOUT = {"quick": 300, "thorough": 900}
NSAMPLES = 6
EXHAUSTIVE = True
B, I, F = "bool", "int", "float"

# key -> (type, None allowed, interior values, out-of-range values, companions needed for the interior values)
#   'N' stands for n, 'P' for npt in symbolic values (resolved per problem)
TABLE = {
    "general.rounding_error_constant": (F, False, [0.01, 0.5], [-0.1], {}),
    "general.safety_step_thresh": (F, False, [0.3, 0.8], [-0.5], {}),
    "general.check_objfun_for_overflow": (B, False, [True, False], [], {}),
    "init.random_initial_directions": (B, False, [True, False], [], {}),
    "init.run_in_parallel": (B, False, [True, False], [], {"init.random_initial_directions": True}),
    "init.random_directions_make_orthogonal": (B, False, [True, False], [], {"init.random_initial_directions": True}),
    "interpolation.precondition": (B, False, [True, False], [], {}),
    "interpolation.throw_error_on_nans": (B, False, [True, False], [], {}),
    "logging.n_to_print_whole_x_vector": (I, False, [3, 10], [-1], {}),
    "logging.save_diagnostic_info": (B, False, [True, False], [], {}),
    "logging.save_poisedness": (B, False, [True, False], [], {"logging.save_diagnostic_info": True}),
    "logging.save_xk": (B, False, [True, False], [], {"logging.save_diagnostic_info": True}),
    "logging.save_rk": (B, False, [True, False], [], {"logging.save_diagnostic_info": True}),
    "tr_radius.eta1": (F, False, [0.05, 0.3], [-0.1, 1.5], {}),
    "tr_radius.eta2": (F, False, [0.5, 0.9], [-0.1, 1.5], {}),
    "tr_radius.gamma_dec": (F, False, [0.3, 0.8], [-0.5, 1.5], {}),
    "tr_radius.gamma_inc": (F, False, [1.5, 3.0], [0.5, -2.0], {}),
    "tr_radius.gamma_inc_overline": (F, False, [2.0, 6.0], [0.5, -4.0], {}),
    "tr_radius.alpha1": (F, False, [0.05, 0.5], [-0.1, 1.5], {}),
    "tr_radius.alpha2": (F, False, [0.3, 0.9], [-0.1, 1.5], {}),
    "model.abs_tol": (F, False, [1e-10, 1e-3], [-1e-3], {}),
    "model.rel_tol": (F, False, [1e-10, 1e-2], [-0.1, 1.5], {}),
    "slow.history_for_slow": (I, False, [3, 8], [-1], {}),
    "slow.thresh_for_slow": (F, False, [1e-6, 1e-2], [-1e-4], {}),
    "slow.max_slow_iters": (I, False, [5, 100], [-1], {}),
    "noise.quit_on_noise_level": (B, False, [True, False], [], {}),
    "noise.scale_factor_for_quit": (F, False, [0.5, 2.0], [-1.0], {}),
    "noise.multiplicative_noise_level": (F, True, [0.01], [-0.1], {"noise.quit_on_noise_level": True}),
    "noise.additive_noise_level": (F, True, [0.1], [-0.1], {"noise.quit_on_noise_level": True}),
    "regression.num_extra_steps": (I, False, [1, 2], [-1], {}),
    "regression.increase_num_extra_steps_with_restart": (I, False, [1], [-1], {}),
    "regression.momentum_extra_steps": (B, False, [True, False], [], {"regression.num_extra_steps": 1}),
    "restarts.use_restarts": (B, False, [True, False], [], {}),
    "restarts.max_unsuccessful_restarts": (I, False, [2, 5], [-1], {"restarts.use_restarts": True}),
    "restarts.rhoend_scale": (F, False, [0.5, 0.1], [-0.5], {"restarts.use_restarts": True}),
    "restarts.use_soft_restarts": (B, False, [True, False], [], {"restarts.use_restarts": True}),
    "restarts.soft.num_geom_steps": (I, False, [1, 2], [-1], {"restarts.use_restarts": True}),
    "restarts.soft.move_xk": (B, False, [True, False], [], {"restarts.use_restarts": True}),
    "restarts.soft.max_fake_successful_steps": (I, False, [3, 50], [0, -1], {"restarts.use_restarts": True}),
    "restarts.hard.use_old_rk": (B, False, [True, False], [], {"restarts.use_restarts": True, "restarts.use_soft_restarts": False}),
    "restarts.increase_npt": (B, False, [True, False], [], {"restarts.use_restarts": True, "restarts.max_npt": "P+1"}),
    "restarts.increase_npt_amt": (I, False, [1, 2], [-1], {"restarts.use_restarts": True, "restarts.increase_npt": True, "restarts.max_npt": "P+2",
                                                             "restarts.hard.increase_ndirs_initial_amt": "SAME"}),
    "restarts.hard.increase_ndirs_initial_amt": (I, False, [1, 2], [-1], {"restarts.use_restarts": True}),
    "restarts.max_npt": (I, False, ["P", "P+1"], ["P-1"], {"restarts.use_restarts": True}),
    "restarts.auto_detect": (B, False, [True, False], [], {"restarts.use_restarts": True}),
    "restarts.auto_detect.history": (I, False, [10, 50], [0, -3], {"restarts.use_restarts": True}),
    "restarts.auto_detect.min_chgJ_slope": (F, False, [0.01, 0.1], [-0.1], {"restarts.use_restarts": True}),
    "restarts.auto_detect.min_correl": (F, False, [0.05, 0.5], [-0.1, 1.5], {"restarts.use_restarts": True}),
    "growing.ndirs_initial": (I, False, ["N", "max(1,N-1)"], [0, "P"], {}),
    "growing.num_new_dirns_each_iter": (I, False, [1], [-1], {}),
    "growing.delta_scale_new_dirns": (F, False, [0.5], [-1.0], {}),
    "growing.do_geom_steps": (B, False, [True, False], [], {"growing.ndirs_initial": "max(1,N-1)"}),
    "growing.reset_delta": (B, False, [True, False], [], {"growing.ndirs_initial": "max(1,N-1)"}),
    "growing.reset_rho": (B, False, [True, False], [], {"growing.reset_delta": True, "growing.ndirs_initial": "max(1,N-1)"}),
    "growing.gamma_dec": (F, False, [0.3], [-0.5, 1.5], {"growing.ndirs_initial": "max(1,N-1)"}),
    "growing.safety.do_safety_step": (B, False, [True, False], [], {"growing.ndirs_initial": "max(1,N-1)"}),
    "growing.safety.reduce_delta": (B, False, [True, False], [], {"growing.ndirs_initial": "max(1,N-1)"}),
    "growing.safety.full_geom_step": (B, False, [True, False], [], {"growing.ndirs_initial": "max(1,N-1)"}),
    "growing.full_rank.use_full_rank_interp": (B, False, [True, False], [], {"growing.ndirs_initial": "max(1,N-1)"}),
    "growing.full_rank.scale_factor": (F, True, [1e-3], [-1.0], {}),
    "growing.full_rank.svd_scale_factor": (F, True, [0.5], [-0.5, 1.5], {"growing.ndirs_initial": "max(1,N-1)"}),
    "growing.full_rank.min_sing_val": (F, True, [1e-8], [-1e-6], {"growing.ndirs_initial": "max(1,N-1)"}),
    "growing.full_rank.svd_max_jac_cond": (F, True, [1e6], [0.5], {"growing.ndirs_initial": "max(1,N-1)"}),
    "growing.perturb_trust_region_step": (B, False, [True, False], [], {"growing.full_rank.use_full_rank_interp": False,
                                                                       "growing.ndirs_initial": "max(1,N-1)"}),
    "dykstra.d_tol": (F, False, [1e-8], [-1e-10], {}),
    "dykstra.max_iters": (I, False, [50], [-1], {}),
    "matrix_rank.r_tol": (F, False, [1e-15], [-1e-18], {}),
    "func_tol.criticality_measure": (F, False, [1e-2], [-0.1, 1.5], {}),
    "func_tol.tr_step": (F, False, [0.5], [-0.1, 1.5], {}),
    "func_tol.max_iters": (I, False, [100], [-1], {}),
    "sfista.max_iters_scaling": (F, False, [3.0], [0.5, -1.0], {}),
}

# fixed, seed-independent problem set for the enumerations
PROBLEMS = {
    "quick": ["rosen2", "linbox3", "noisy2", "reg2", "grow3"],
    "thorough": ["rosen2", "linbox3", "noisy2", "reg2", "grow3", "scaled4", "ball2"],
}


def problem_cfg(name):
    if name == "rosen2":
        return dict(prob=dict(kind="rosen", n=2, m=2, pseed=1), x0=[-1.2, 1.0], lower=None, upper=None, args=dict(maxfun=60, rhoend=1e-5))
    if name == "linbox3":
        return dict(prob=dict(kind="linear", n=3, m=5, pseed=7, cond=5.0, scale=1.0), x0=[0.5, -0.5, 0.2], lower=[-1.0, -1.0, -1.0],
                    upper=[1.0, 1.5, 0.25], args=dict(maxfun=60, rhoend=1e-5, rhobeg=0.1))
    if name == "noisy2":
        return dict(prob=dict(kind="sinlin", n=2, m=4, pseed=3, noise=1e-2, nseed=5), x0=[0.3, -0.4], lower=None, upper=None,
                    args=dict(maxfun=70, rhoend=1e-4, objfun_has_noise=True))
    if name == "reg2":
        return dict(prob=dict(kind="linear", n=2, m=4, pseed=11, cond=3.0, scale=1.0), x0=[0.7, -0.3], lower=None, upper=None,
                    reg=dict(type="l1", lam=0.1), args=dict(maxfun=14, rhoend=1e-4))
    if name == "grow3":
        # growing initial set (one initial direction, one new direction per iteration, m < n): the growing.* keys are live here
        return dict(prob=dict(kind="sinlin", n=3, m=2, pseed=17), x0=[0.4, -0.3, 0.8], lower=None, upper=None,
                    user_params={"growing.ndirs_initial": 1, "growing.num_new_dirns_each_iter": 1},
                    args=dict(maxfun=40, rhoend=1e-5))
    if name == "scaled4":
        return dict(prob=dict(kind="exp", n=4, m=6, pseed=13), x0=[0.1, 5.0, -0.2, 30.0], lower=[-1.0, 0.0, -2.0, 10.0],
                    upper=[1.0, 10.0, 2.0, 100.0], args=dict(maxfun=80, rhoend=1e-5, scaling_within_bounds=True))
    if name == "ball2":
        return dict(prob=dict(kind="rosen", n=2, m=2, pseed=1), x0=[0.2, 0.3], lower=None, upper=None,
                    proj=[dict(type="ball", c=[0.0, 0.0], r=0.9)], args=dict(maxfun=20, rhoend=1e-4, rhobeg=0.1))
    raise ValueError(name)


SYMBOLS = {"N", "P", "P+1", "P+2", "P-1", "max(1,N-1)", "SAME"}


def resolve(v, n, npt, amt=None):
    """Symbolic table values (n / npt dependent) -> numbers; anything else (incl. wrong-type strings) is passed through."""
    if isinstance(v, str) and v in SYMBOLS:
        if v == "SAME":
            return amt
        return int(eval(v, {"N": n, "P": npt, "max": max}))
    return v


def documented_exit_names():
    txt = open(os.path.join(engine.REPO, "docs", "userguide.rst")).read()
    return sorted(set(re.findall(r":code:`soln\.(EXIT_\w+)`", txt)))


def live_keys():
    from dfols.params import ParameterList
    return list(ParameterList(3, 4, 100).params.keys())


def live_range(key, npt):
    from dfols.params import ParameterList
    return ParameterList(3, npt, 100).param_type(key, npt)


WRONG = {B: ["yes", 2, [True]], I: [2.5, "3", [1]], F: ["0.5", [0.5], (0.1,)]}


def enumeration(tier):
    """The complete list of enumerated cases (seed independent)."""
    out = []
    probs = PROBLEMS[tier]
    # (i) validation classes, singly and in pairs
    single = ["rhobeg<=0", "rhobeg=0", "rhoend<=0", "rhobeg<=rhoend", "rhobeg==rhoend", "npt<n+1", "maxfun<=0", "maxfun<0", "gap<2rhobeg",
              "x0-not-vector", "lower-shape", "upper-shape", "h-without-prox", "h-without-lh", "lh<=0", "lh=0", "pair:full_geom+reduce_delta",
              "pair:full_rank+perturb", "pair:parallel-without-random", "pair:reset_rho-without-reset_delta", "both-noise-levels",
              "bad-param-value",
              # validation must not depend on which other features are switched on (the checks of the bounds used to run only
              # after scaling / the conversion of the box into a projection had already consumed them), and NaN is not a radius
              "lower-shape+scaling", "upper-shape+scaling", "lower-shape+projections", "zero-width+scaling", "reversed+scaling",
              "rhobeg=nan", "rhoend=nan", "lh=nan", "x0-nan", "lower-nan", "npt>quadratic+coordinate-init"]
    for c in single:
        for p in probs[:3]:
            out.append(dict(type="invalid", classes=[c], problem=p))
    for a in range(len(single)):
        for b2 in range(a + 1, len(single)):
            if a % 3 == 0 and b2 % 2 == 1:
                out.append(dict(type="invalid", classes=[single[a], single[b2]], problem=probs[(a + b2) % 3]))
    # (ii) parameter table
    for key in live_keys():
        for p in probs:
            out.append(dict(type="param", key=key, problem=p))
    # (iii)/(iv)
    out.append(dict(type="exit_names"))
    for bad in ["restarts.use_restart", "", "restarts", "Restarts.use_restarts", "tr_radius.eta3", 5, None, ("a",)]:
        for p in probs[:2]:
            out.append(dict(type="unknown_key", key=bad, problem=p))
    return out


PINNED = [
    # regression case for fix 90bcc32 (was finding growing-with-more-than-n-directions): ZeroDivisionError out of solve()
    dict(pinned="regression-growing-with-more-than-n-directions", np_seed=0,
         cfg=dict(prob=dict(kind="sinlin", n=3, m=1, pseed=843609547), x0=[-0.5457026265929948, 1.1505587161506132, -1.0988786731116433],
                  lower=None, upper=[-0.5394311096252616, 1.18920347607939, -1.0952521965756514],
                  user_params={"general.safety_step_thresh": 0.8832703121068197, "growing.ndirs_initial": 3},
                  args=dict(maxfun=15, rhoend=1.674234448362721e-08, npt=7, rhobeg=0.0016742344483627214))),
    dict(pinned="projections-with-npt-not-n+1-RuntimeError", np_seed=0,
         cfg=dict(prob=dict(kind="rosen", n=2, m=2, pseed=1), x0=[0.2, 0.3], lower=None, upper=None, proj=[dict(type="ball", c=[0.0, 0.0], r=0.9)],
                  args=dict(maxfun=20, rhoend=1e-4, rhobeg=0.1, npt=4), user_params={})),
    dict(pinned="hard-restart-npt-exceeds-quadratic-limit", np_seed=0,
         cfg=dict(prob=dict(kind="rosen", n=1, m=2, pseed=1), x0=[0.5], lower=None, upper=None,
                  args=dict(maxfun=80, rhoend=1e-2, rhobeg=0.1),
                  user_params={"restarts.use_restarts": True, "restarts.use_soft_restarts": False, "restarts.increase_npt": True,
                               "restarts.max_npt": 5})),
]


def cases(tier, seed):
    out = []
    i = 0
    for p in PINNED:
        out.append(dict(i=i, seed=seed, type="pinned", **p)); i += 1
    for e in enumeration(tier):
        out.append(dict(i=i, seed=seed, **e)); i += 1
    for _ in range(NSAMPLED[tier]):
        out.append(dict(i=i, seed=seed, type="sampled")); i += 1
    for j in range(NBORROWED[tier]):
        out.append(dict(i=i, seed=seed, type="borrowed", j=j)); i += 1
    return out


def setup():
    engine.install_core_monitors()
    engine.install_log_tap()


# ---------------------------------------------------------------------------
def well_formed(run, st, tag, viol, cfg=None, known=None, expect=None):
    """Result object well-formedness + exception / livelock monitors. expect in {None, 'rejected', 'accepted'}."""
    names = documented_exit_names()

    def add(kind, msg, known_=None, **w):
        if len(viol) < 6:
            viol.append(V(kind, "[%s] %s" % (tag, msg), known=known_, **w))
    st["calls_checked"] = st.get("calls_checked", 0) + 1
    if run.timeout:
        return "timeout"
    if run.livelock:
        add("livelock", "more than %d main-loop iterations without an objective evaluation: solve would never return" % run.ctx.extra.get("livelock_limit", engine.LIVELOCK_LIMIT),
            known_=(known("livelock", None) if known else None))
        return "livelock"
    if run.exc is not None:
        add("exception", "solve raised %s: %s at %s" % (type(run.exc).__name__, str(run.exc)[:100], engine.exc_line(run.exc)),
            known_=(known("exception", run.exc) if known else None), where=engine.exc_line(run.exc))
        return "exception"
    s = run.soln
    ok_flags = set()
    for nm in names:
        if not hasattr(s, nm):
            add("exit-name-missing", "result object has no attribute %s (named in the user guide)" % nm)
        else:
            ok_flags.add(getattr(s, nm))
    if s.flag not in ok_flags:
        add("undocumented-flag", "flag %r is not one of the documented exit codes %s (%s)" % (s.flag, sorted(ok_flags), s.msg))
    if not isinstance(s.msg, str) or not s.msg.strip() or s.msg.startswith("Unknown exit flag"):
        add("bad-message", "message is %r" % (s.msg,))
    try:
        t = str(s)
        if not t.strip():
            add("str-empty", "str(result) is empty")
    except Exception as e:
        add("str-raises", "str(result) raised %r" % (e,))
    ncalls = len(run.ctx.calls)
    if s.flag == s.EXIT_INPUT_ERROR:
        if ncalls != 0 or s.nf != 0:
            add("input-error-after-evaluations", "input-error flag but %d evaluations were made (nf=%s)" % (ncalls, s.nf))
        if expect == "accepted":
            add("valid-input-rejected", "a valid call was rejected: %s" % s.msg)
        return "rejected"
    if expect == "rejected":
        add("invalid-input-accepted", "an invalid call was accepted (flag %d after %d evaluations: %s)" % (s.flag, ncalls, s.msg))
    return "accepted"


def apply_invalid(cfg, kw, cls, n):
    """Make the call invalid in exactly the named way (edits kw in place)."""
    up = kw.setdefault("user_params", {})
    if cls == "rhobeg<=0":
        kw["rhobeg"] = -0.1
    elif cls == "rhobeg=0":
        kw["rhobeg"] = 0.0
    elif cls == "rhoend<=0":
        kw["rhoend"] = -1e-8
    elif cls == "rhobeg<=rhoend":
        kw["rhobeg"], kw["rhoend"] = 1e-3, 1e-2
    elif cls == "rhobeg==rhoend":
        kw["rhobeg"], kw["rhoend"] = 1e-2, 1e-2
    elif cls == "npt<n+1":
        kw["npt"] = n
    elif cls == "maxfun<=0":
        kw["maxfun"] = 0
    elif cls == "maxfun<0":
        kw["maxfun"] = -5
    elif cls == "gap<2rhobeg":
        x0 = kw["_x0"]
        kw["bounds"] = (x0 - 0.05, x0 + 0.05)
        kw["rhobeg"] = 0.1
        kw.pop("scaling_within_bounds", None)
    elif cls == "x0-not-vector":
        kw["_x0"] = kw["_x0"].reshape((n, 1))
    elif cls == "lower-shape":
        kw["bounds"] = (-10.0 * np.ones(n + 1), 10.0 * np.ones(n))
        kw.pop("scaling_within_bounds", None)
    elif cls == "upper-shape":
        kw["bounds"] = (-10.0 * np.ones(n), 10.0 * np.ones(n + 2))
        kw.pop("scaling_within_bounds", None)
    elif cls == "h-without-prox":
        kw["h"] = lambda x: 0.1 * float(np.abs(x).sum())
        kw["lh"] = 0.1 * np.sqrt(n)
        kw.pop("prox_uh", None)
    elif cls == "h-without-lh":
        kw["h"] = lambda x: 0.1 * float(np.abs(x).sum())
        kw["prox_uh"] = lambda x, u: np.sign(x) * np.maximum(np.abs(x) - 0.1 * u, 0)
        kw.pop("lh", None)
    elif cls in ("lh<=0", "lh=0"):
        kw["h"] = lambda x: 0.1 * float(np.abs(x).sum())
        kw["prox_uh"] = lambda x, u: np.sign(x) * np.maximum(np.abs(x) - 0.1 * u, 0)
        kw["lh"] = -1.0 if cls == "lh<=0" else 0.0
    elif cls == "pair:full_geom+reduce_delta":
        up["growing.safety.full_geom_step"] = True
        up["growing.safety.reduce_delta"] = True
    elif cls == "pair:full_rank+perturb":
        up["growing.full_rank.use_full_rank_interp"] = True
        up["growing.perturb_trust_region_step"] = True
    elif cls == "pair:parallel-without-random":
        up["init.run_in_parallel"] = True
        up["init.random_initial_directions"] = False
    elif cls == "pair:reset_rho-without-reset_delta":
        up["growing.reset_rho"] = True
        up["growing.reset_delta"] = False
    elif cls == "both-noise-levels":
        up["noise.quit_on_noise_level"] = True
        up["noise.additive_noise_level"] = 0.1
        up["noise.multiplicative_noise_level"] = 0.1
    elif cls == "bad-param-value":
        up["tr_radius.eta1"] = -0.25
    elif cls in ("lower-shape+scaling", "upper-shape+scaling"):
        kw["bounds"] = (-10.0 * np.ones(n + 1), 10.0 * np.ones(n)) if cls.startswith("lower") else (-10.0 * np.ones(n), 10.0 * np.ones(n + 2))
        kw["scaling_within_bounds"] = True
        kw.pop("projections", None)
    elif cls == "lower-shape+projections":
        kw["bounds"] = (-10.0 * np.ones(n + 1), 10.0 * np.ones(n))
        kw["projections"] = [lambda x: np.array(x, dtype=float)]
        kw.pop("scaling_within_bounds", None)
        kw.pop("npt", None)
    elif cls in ("zero-width+scaling", "reversed+scaling"):
        x0 = kw["_x0"]
        lo, hi = x0 - 1.0, x0 + 1.0
        if cls.startswith("zero"):
            lo[0] = hi[0] = x0[0]
        else:
            lo[0], hi[0] = x0[0] + 1.0, x0[0] - 1.0
        kw["bounds"] = (lo, hi)
        kw["scaling_within_bounds"] = True
        kw.pop("projections", None)
        kw.pop("rhobeg", None)
    elif cls == "rhobeg=nan":
        kw["rhobeg"] = float("nan")
    elif cls == "rhoend=nan":
        kw["rhoend"] = float("nan")
    elif cls == "lh=nan":
        kw["h"] = lambda x: 0.1 * float(np.abs(x).sum())
        kw["prox_uh"] = lambda x, u: np.sign(x) * np.maximum(np.abs(x) - 0.1 * u, 0)
        kw["lh"] = float("nan")
    elif cls == "x0-nan":
        kw["_x0"] = kw["_x0"].copy()
        kw["_x0"][-1] = np.nan
    elif cls == "lower-nan":
        x0 = kw["_x0"]
        lo, hi = x0 - 1.0, x0 + 1.0
        lo[0] = np.nan
        kw["bounds"] = (lo, hi)
        kw.pop("scaling_within_bounds", None)
        kw.pop("projections", None)
    elif cls == "npt>quadratic+coordinate-init":
        kw["npt"] = (n + 1) * (n + 2) // 2 + 1
        up["init.random_initial_directions"] = False
        kw.pop("projections", None)
    else:
        raise ValueError(cls)


def call(cfg, kw_edit=None, np_seed=0, timeout=60, livelock_limit=None):
    """Run solve for a cfg with optional raw keyword edits (for invalid inputs that cfg cannot express)."""
    ctx = engine.Ctx()
    if livelock_limit:
        ctx.extra["livelock_limit"] = livelock_limit
    b = gen.build(cfg, ctx)
    kw = dict(b.kw)
    kw["_x0"] = b.x0.copy()
    if kw_edit:
        kw_edit(kw, b)
    x0 = kw.pop("_x0")
    np.random.seed(np_seed)
    run = engine.run_solve(b.objfun, x0, ctx=ctx, timeout=timeout, solve_kwargs=kw)
    run.built, run.cfg = b, cfg
    return run


def known_for(cfg, over=None):
    """Mechanism classifiers for the C07 findings (by raise site / configuration, never by seed)."""
    up = dict(cfg.get("user_params") or {})
    n = cfg["prob"]["n"]
    npt = cfg.get("args", {}).get("npt") or n + 1

    def k(kind, exc):
        site = engine.exc_site(exc) if exc is not None else None
        mech = None
        if kind == "exception":
            if isinstance(exc, RuntimeError) and "initial directions" in str(exc) and cfg.get("proj"):
                mech = "projections-with-npt-not-n+1-RuntimeError" if (npt != n + 1 or "growing.ndirs_initial" in up) else "projections-x0-on-a-vertex-RuntimeError"
            if isinstance(exc, AssertionError) and "npt <= (n+1)(n+2)/2" in str(exc) and up.get("restarts.increase_npt") and \
                    up.get("restarts.max_npt", 0) > (n + 1) * (n + 2) // 2:
                mech = "hard-restart-npt-exceeds-quadratic-limit"
        if mech is not None:
            return mech       # a characterised mechanism (raise site + configuration) takes precedence over "whatever this boundary value did"
        if over is not None and over.get("class") == "boundary":
            return "boundary-value|%s=%r" % (over["key"], over["value"])
        return None
    return k


def run_invalid(case, res):
    st = res["stats"]
    cfg = problem_cfg(case["problem"])
    n = cfg["prob"]["n"]
    classes = case["classes"]

    def edit(kw, b):
        for c in classes:
            apply_invalid(cfg, kw, c, n)
    run = call(cfg, edit)
    well_formed(run, st, "invalid %s on %s" % ("+".join(classes), case["problem"]), res["viol"], expect="rejected")
    st["invalid_classes_checked"] = st.get("invalid_classes_checked", 0) + 1
    res["nontrivial"].append("inv|%s|%s" % ("+".join(classes), case["problem"]))
    if len(classes) == 1 and case["problem"] == "rosen2":
        res["sample"] = dict(kind="invalid-input", classes=classes, problem=case["problem"], flag=getattr(run.soln, "flag", None),
                             msg=getattr(run.soln, "msg", None), exc=repr(run.exc) if run.exc else None, evaluations=len(run.ctx.calls))


def run_param(case, res):
    st = res["stats"]
    key = case["key"]
    base = problem_cfg(case["problem"])
    n = base["prob"]["n"]
    npt = base["args"].get("npt") or n + 1
    entry = TABLE.get(key)
    tests = []   # (class, value, companions, expectation)
    if entry is None:
        st["keys_without_expectation"] = st.get("keys_without_expectation", 0) + 1
        res["inconclusive"].append("parameter %r has no entry in the independent expectation table (new key?)" % key)
        return
    typ, none_ok, interior, outside, comp = entry
    from dfols.params import ParameterList
    default = ParameterList(n, npt, base["args"]["maxfun"], objfun_has_noise=bool(base["args"].get("objfun_has_noise"))).params[key]
    tests.append(("default", default, {}, "accepted"))
    for v in interior:
        tests.append(("in-range", v, comp, "accepted"))
    for v in outside:
        tests.append(("out-of-range", v, {}, "rejected"))
    if typ == F:
        tests.append(("out-of-range", float("nan"), {}, "rejected"))     # NaN is in no range
    for v in WRONG[typ]:
        tests.append(("wrong-type", v, {}, "rejected"))
    if not none_ok and default is not None:
        tests.append(("wrong-type", "NONE", {}, "rejected"))
    try:
        _t, _n, lo, hi = live_range(key, npt)
        for bv in (lo, hi):
            if bv is not None and typ != B:
                tests.append(("boundary", (float(bv) if typ == F else int(bv)), comp, None))
    except Exception as e:
        res["viol"].append(V("exception", "param_type(%r) raised %r" % (key, e)))
    for cls, val, companions, expect in tests:
        cfg = copy.deepcopy(base)
        up = cfg.setdefault("user_params", {})
        amt = resolve(val, n, npt) if key == "restarts.increase_npt_amt" else None
        for ck, cv in companions.items():
            if ck != key:
                up[ck] = resolve(cv, n, npt, amt)
        if val == "NONE":
            up[key] = None
            # dfols cannot distinguish "set to None" from "not set" through its call syntax: params(key, new_value=None) is a read
            st["none_values_not_settable"] = st.get("none_values_not_settable", 0) + 1
            continue
        up[key] = resolve(val, n, npt)
        if cfg.get("reg") and up.get("logging.save_diagnostic_info"):
            pass
        over = dict(key=key, value=up[key], **{"class": cls})
        # logical watchdog: legitimate code needs < 200 iterations between two evaluations (rho shrinks geometrically)
        run = call(cfg, np_seed=0, timeout=120, livelock_limit=(2000 if cls == "boundary" else None))
        if run.timeout:
            res["inconclusive"].append("watchdog")
            continue
        tag = "param %s=%r (%s) on %s" % (key, up[key], cls, case["problem"])
        verdict = well_formed(run, st, tag, res["viol"], cfg=cfg, known=known_for(cfg, over), expect=expect)
        st["param_tests|" + cls] = st.get("param_tests|" + cls, 0) + 1
        st["param_verdict|%s|%s" % (cls, verdict)] = st.get("param_verdict|%s|%s" % (cls, verdict), 0) + 1
        res["nontrivial"].append("par|%s|%s|%r|%s" % (key, cls, val, case["problem"]))
    st["keys_enumerated"] = st.get("keys_enumerated", 0) + 1
    if case["problem"] == "rosen2" and key in ("tr_radius.eta1", "growing.ndirs_initial", "restarts.max_npt"):
        res["sample"] = dict(kind="parameter-table", key=key, problem=case["problem"],
                             tests=[(c, engine.jsonable(v), e) for c, v, _c, e in tests])


def run_unknown_key(case, res):
    st = res["stats"]
    cfg = problem_cfg(case["problem"])
    ctx = engine.Ctx()
    b = gen.build(cfg, ctx)
    kw = dict(b.kw)
    kw["user_params"] = {case["key"]: 1}
    run = engine.run_solve(b.objfun, b.x0.copy(), ctx=ctx, timeout=30, solve_kwargs=kw)
    st["unknown_keys_checked"] = st.get("unknown_keys_checked", 0) + 1
    if type(run.exc) is not ValueError:
        res["viol"].append(V("unknown-key-not-ValueError", "unknown parameter name %r: expected exactly ValueError, got %s" % (
            case["key"], ("%s: %s" % (type(run.exc).__name__, run.exc)) if run.exc is not None else "a normal return (flag %s)" % getattr(run.soln, "flag", None))))
    elif len(ctx.calls) != 0:
        res["viol"].append(V("unknown-key-after-evaluation", "ValueError for %r only after %d evaluations" % (case["key"], len(ctx.calls))))
    res["nontrivial"].append("unk|%r|%s" % (case["key"], case["problem"]))


def run_exit_names(case, res):
    st = res["stats"]
    names = documented_exit_names()
    st["documented_exit_names"] = len(names)
    if len(names) < 5:
        res["inconclusive"].append("could not parse EXIT_* names from docs/userguide.rst")
        return
    # a normal result and an input-error result
    for label, edit in (("normal", None), ("input-error", lambda kw, b: kw.update(rhobeg=-1.0))):
        run = call(problem_cfg("rosen2"), edit)
        if run.soln is None:
            res["viol"].append(V("exception", "[exit names, %s result] solve raised %r" % (label, run.exc)))
            continue
        vals = {}
        for nm in names:
            if not hasattr(run.soln, nm):
                res["viol"].append(V("exit-name-missing", "%s result has no attribute %s (named in the user guide)" % (label, nm)))
            else:
                vals[nm] = getattr(run.soln, nm)
        if len(set(vals.values())) != len(vals):
            res["viol"].append(V("exit-codes-not-distinct", "documented exit codes are not distinct: %s" % vals))
        res["sample"] = dict(kind="exit-names", documented=names, values=vals)
    res["nontrivial"].append("exitnames")
    res["nontrivial"].append("exitnames-input-error")


def make_sampled_cfg(seed, i):
    rng = engine.rng_for(seed, NUM, i)
    r = rng.random
    flat = i % 9 == 4    # flat / partly flat objectives: degenerate models for every step solver (trust region, geometry, projected)
    cfg = campaign.gen_cfg(rng, noise_p=(0.0 if flat else 0.3), averaging_p=0.2, box_p=0.3, proj_p=(0.3 if flat else 0.06), reg_p=(0.15 if flat else 0.05),
                           restarts_p=0.5, nmax=4, mmax=6, maxfuns=(5, 15, 40, 80), term_p=0.4,
                           kinds=(("const", "plateau") if flat else ("linear", "sinlin", "exp", "rosen")))
    up = cfg["user_params"]
    n = cfg["prob"]["n"]
    # rarely used switches, values strictly inside their ranges
    if r() < 0.15 and not cfg.get("proj"):
        up["init.random_initial_directions"] = True
        if r() < 0.5:
            up["init.run_in_parallel"] = True
        if r() < 0.3:
            up["init.random_directions_make_orthogonal"] = False
    if r() < 0.15:
        up["interpolation.precondition"] = False
    if r() < 0.15:
        up["general.safety_step_thresh"] = float(rng.uniform(0.1, 0.9))
    if r() < 0.15:
        up["tr_radius.gamma_inc_overline"] = float(rng.uniform(1.5, 6))
        up["tr_radius.eta2"] = float(rng.uniform(0.5, 0.95))
    if r() < 0.15:
        up["tr_radius.alpha1"] = float(rng.uniform(0.03, 0.6))
        up["tr_radius.alpha2"] = float(rng.uniform(0.1, 0.95))
    if r() < 0.1:
        up["slow.history_for_slow"] = int(rng.integers(1, 8))
    if up.get("restarts.use_restarts") and r() < 0.3:
        up["restarts.auto_detect.history"] = int(rng.integers(3, 20))
        up["restarts.auto_detect.min_chgJ_slope"] = float(rng.uniform(0.001, 0.1))
        up["restarts.auto_detect.min_correl"] = float(rng.uniform(0.01, 0.5))
    if "growing.ndirs_initial" in up and r() < 0.5:
        u = r()
        if u < 0.3:
            up["growing.full_rank.use_full_rank_interp"] = False
            up["growing.perturb_trust_region_step"] = True
        elif u < 0.5:
            up["growing.safety.do_safety_step"] = False
        elif u < 0.7:
            up["growing.delta_scale_new_dirns"] = float(rng.uniform(0.1, 1.5))
        else:
            up["growing.full_rank.svd_scale_factor"] = float(rng.uniform(0.1, 0.9))
            up["growing.full_rank.min_sing_val"] = float(10.0 ** rng.uniform(-9, -3))
    if r() < 0.1:
        up["general.check_objfun_for_overflow"] = False
    if r() < 0.1 and not cfg.get("reg"):
        up["logging.save_diagnostic_info"] = True
        up["logging.save_poisedness"] = bool(r() < 0.5)
        up["logging.save_xk"] = bool(r() < 0.3)
    campaign.maybe_failpoint(cfg, rng, p=0.1)
    # the two remaining arguments of solve(): progress table on stdout, logging switched off
    r3 = np.random.default_rng([int(seed), NUM, int(i), 5])
    if cfg["args"].get("scaling_within_bounds") and r3.random() < 0.4:
        # scaled runs that end while the initial set is still being built (no Jacobian to un-scale)
        cfg["args"]["maxfun"] = int(r3.integers(1, n + 2))
    if r3.random() < 0.2:
        cfg["args"]["print_progress"] = True
    if r3.random() < 0.15 and not cfg["args"].get("scaling_within_bounds"):
        # scaling requested where it cannot apply (no bounds / one-sided bounds / projections): documented to be ignored with a warning
        cfg["args"]["scaling_within_bounds"] = True
        if cfg.get("lower") is not None and cfg.get("upper") is not None and not cfg.get("proj"):
            if r3.random() < 0.5:
                cfg["upper"] = None
            else:
                cfg["lower"] = None
        cfg["_scaling_ignored"] = True
    if r3.random() < 0.2:
        cfg["args"]["do_logging"] = False
    return cfg


def run_sampled(case, res):
    st = res["stats"]
    cfg = case.get("cfg") or make_sampled_cfg(case["seed"], case["i"])
    case["cfg"] = cfg
    np.random.seed(case["i"] % 1000)
    import io, contextlib
    out = io.StringIO()
    with contextlib.redirect_stdout(out):
        run = gen.run_cfg(cfg, timeout=(150 if cfg.get("proj") else 90))
    oracles.common_stats(run, st)
    if cfg["args"].get("print_progress"):
        st["print_progress_runs"] = 1
        st["print_progress_lines"] = len(out.getvalue().splitlines())
    if cfg["args"].get("do_logging") is False:
        st["do_logging_off_runs"] = 1
        if run.ctx.evalpairs:
            res["viol"].append(V("logged-with-do_logging-off", "do_logging=False but %d evaluation lines were logged" % len(run.ctx.evalpairs)))
    if run.timeout:
        res["inconclusive"].append("watchdog")
        return
    well_formed(run, st, "sampled valid call %d" % case["i"], res["viol"], cfg=cfg, known=known_for(cfg), expect="accepted")
    st["sampled_calls"] = st.get("sampled_calls", 0) + 1
    res["nontrivial"].append("smp|" + oracles.cfg_hash(cfg))
    if case["i"] % 100 == 0:
        res["sample"] = dict(kind="sampled-valid-call", case=case["i"], prob=cfg["prob"], args=cfg["args"], user_params=cfg["user_params"],
                             flag=getattr(run.soln, "flag", None), msg=getattr(run.soln, "msg", None))


NBORROWED = {"quick": 700, "thorough": 14000}
BORROW = [("c01", "make_cfg", ()), ("c01", "make_active_cfg", ()), ("c02", "make_cfg", ()), ("c03", "make_cfg", ("rand",)),
          ("c04", "make_cfg", ("rand",)), ("c04", "make_cfg", ("grow",)), ("c04", "make_cfg", ("perturb",)), ("c04", "make_cfg", ("nanregion",)),
          ("c08", "make_cfg", ()), ("c09", "make_cfg", ()), ("c10", "make_cfg", ("rand",)), ("c11", "make_cfg", ()), ("c18", "make_cfg", ()),
          ("c19", "make_cfg", ()), ("c20", "make_cfg", ()), ("c11", "make_cfg", ("soft-restarts-adding-points-under-averaging",))]


def run_borrowed(case, res):
    """Valid calls taken from the generators of the OTHER solver-level checks (each of which counts an exception out of solve() as
    'not mine'): whatever combination of options, averaging, restarts, faults, failpoints and calling forms any of them produces, the
    call must return a well-formed result. Case indices are offset so that these are not the very cases those checks run."""
    import importlib
    st = res["stats"]
    mod, fn, extra = BORROW[case["j"] % len(BORROW)]
    m = importlib.import_module("vf.props." + mod)
    idx = 100000 + case["j"] // len(BORROW)
    if extra and extra[0] == "soft-restarts-adding-points-under-averaging":
        # the one family of C11 (index = 7 mod 10) in which soft restarts ADD points while every point is sampled more than once
        idx, extra = 10 * idx + 7, ()
    cfg = case.get("cfg") or getattr(m, fn)(case["seed"], idx, *extra)
    case["cfg"] = cfg
    run = gen.run_cfg(cfg, timeout=(150 if cfg.get("proj") else 90))
    oracles.common_stats(run, st)
    if run.timeout:
        res["inconclusive"].append("watchdog")
        return
    if isinstance(run.exc, (engine.InjectedFault, gen.ArgsNotPassedThrough)) or (run.exc is not None and cfg.get("faults") and any(v == "raise" for v in cfg["faults"].values())):
        st["borrowed_runs_ended_by_an_injected_exception"] = st.get("borrowed_runs_ended_by_an_injected_exception", 0) + 1
        if isinstance(run.exc, gen.ArgsNotPassedThrough):
            res["viol"].append(V("extra-arguments-not-passed-through", "[borrowed %s.%s %d] %s" % (mod, fn, idx, run.exc)))
        return
    well_formed(run, st, "borrowed %s.%s%s case %d" % (mod, fn, list(extra), idx), res["viol"], cfg=cfg, known=known_for(cfg), expect="accepted")
    st["borrowed_calls"] = st.get("borrowed_calls", 0) + 1
    st["borrowed_from|" + mod] = st.get("borrowed_from|" + mod, 0) + 1
    res["nontrivial"].append("bor|" + oracles.cfg_hash(cfg))
    if case["j"] % 150 == 0:
        res["sample"] = dict(kind="borrowed", source="%s.%s" % (mod, fn), args=cfg["args"], user_params=cfg["user_params"],
                             flag=getattr(run.soln, "flag", None), msg=getattr(run.soln, "msg", None))


def run_pinned(case, res):
    st = res["stats"]
    cfg = case["cfg"]
    np.random.seed(case.get("np_seed", 0))
    run = gen.run_cfg(cfg, timeout=120)
    well_formed(run, st, "pinned %s" % case["pinned"], res["viol"], cfg=cfg, known=known_for(cfg), expect="accepted")
    res["nontrivial"].append("pin|" + case["pinned"])
    res["sample"] = dict(kind="pinned", finding=case["pinned"], exc=repr(run.exc) if run.exc else None,
                         flag=getattr(run.soln, "flag", None))


def run_case(case):
    res = dict(stats={}, viol=[], nontrivial=[], inconclusive=[])
    {"invalid": run_invalid, "param": run_param, "unknown_key": run_unknown_key, "exit_names": run_exit_names,
     "sampled": run_sampled, "pinned": run_pinned, "borrowed": run_borrowed}[case["type"]](case, res)
    return res


def finalize(agg):
    st = agg["stats"]
    reasons = []
    nkeys = len(live_keys())
    nprob = len(PROBLEMS[agg["tier"]])
    if st.get("keys_enumerated", 0) != nkeys * nprob:
        reasons.append("parameter enumeration incomplete: %d of %d (key, problem) pairs" % (st.get("keys_enumerated", 0), nkeys * nprob))
    missing = sorted(set(live_keys()) - set(TABLE))
    if missing:
        reasons.append("live parameter keys without an expectation entry: %s" % missing)
    if st.get("invalid_classes_checked", 0) < 60:
        reasons.append("only %d invalid-input cases ran" % st.get("invalid_classes_checked", 0))
    if st.get("sampled_calls", 0) < 0.9 * NSAMPLED[agg["tier"]]:
        reasons.append("only %d sampled valid calls completed" % st.get("sampled_calls", 0))
    cov = dict(evaluations=int(st.get("calls_checked", 0) + st.get("unknown_keys_checked", 0)),
               exhaustive=True, exhaustive_scope="input-validation classes (singly + pairs), every live parameter key x value classes, "
                                                 "documented EXIT_* names, unknown-key forms - on the fixed problem set %s" % PROBLEMS[agg["tier"]],
               live_parameter_keys=nkeys, keys_enumerated_x_problems=int(st.get("keys_enumerated", 0)),
               parameter_tests_by_class={k[12:]: int(v) for k, v in st.items() if k.startswith("param_tests|")},
               parameter_verdicts={k[14:]: int(v) for k, v in st.items() if k.startswith("param_verdict|")},
               invalid_input_cases=int(st.get("invalid_classes_checked", 0)), unknown_key_cases=int(st.get("unknown_keys_checked", 0)),
               documented_exit_names=int(st.get("documented_exit_names", 0)), sampled_valid_calls=int(st.get("sampled_calls", 0)),
               option_keys_exercised_by_sampling=sorted(k[4:] for k in st if k.startswith("opt|")),
               observation_none_cannot_be_set=int(st.get("none_values_not_settable", 0)))
    return cov, reasons

"""C12 - the box trust-region subproblem solver returns feasible, decreasing steps (icontract post-condition on trsbox)."""
import numpy as np
from .. import engine, gen, oracles, contracts, campaign
from ..oracles import V

ID = "C12"
NUM = 12
LEVEL = "exploration"
RULE = ("icontract post-condition on the real trsbox (box to 2 ulp, ||d|| <= delta(1+1e-8), no model increase, at least the "
        "decrease of steepest descent truncated at the first bound / the ball computed independently, gnew == g+Hd, arguments "
        "not mutated), evaluated (a) on synthetic inputs: n in 1..8, |g| over 6 decades with zero components, delta over 8 decades, "
        "H in {2J'J full rank, rank deficient, tiny, zero, indefinite, diagonal}, every bound independently active / 1e-13*delta "
        "from active / within delta / far / infinite, and (b) in situ on every call the solver itself makes during bounded runs. "
        "Non-trivial = call whose step ended on the trust-region boundary or on at least one bound; distinct by input hash"
        ' Second session: integer-typed current point in one synthetic call in eleven.')
ASSUMPTIONS = ["model-value comparisons carry the rounding slack eps_x*(|g|_1+|H|_1*max(|d|,eps_x)), eps_x = 8 eps max(|xopt|,|d|): at "
               "converged iterates the step is quantised to ulp(xopt)",
               "2 ulp allowance on the box: the step is returned as a difference xnew - xopt",
               "deleting the final clipping of the step changes results only at that ulp level and is not separable by observation"]
NDIRECT = {"quick": 30000, "thorough": 240000}
NSITU = {"quick": 600, "thorough": 6000}
BATCH = 250
CASE_TIMEOUT = {"quick": 300, "thorough": 600}
NSAMPLES = 4


def cases(tier, seed):
    out = []
    nb = NDIRECT[tier] // BATCH
    for b in range(nb):
        out.append(dict(i=b, seed=seed, type="direct", start=b * BATCH, count=BATCH))
    for j in range(NSITU[tier]):
        out.append(dict(i=nb + j, seed=seed, type="insitu"))
    return out


def setup():
    engine.install_core_monitors()
    engine.install_log_tap()


def gen_ties(rng):
    """Structured inputs with EXACT ties (found with the line-coverage probe: several branches of the alternative-step loop were
    never reached by continuous random data): equal-magnitude gradient components, H a multiple of the identity / zero / a
    rank-one ones-matrix, xopt = 0 or small integers, bounds placed exactly where the step meets the trust-region boundary
    (delta/sqrt(k)), at the Cauchy point, or at small dyadic fractions of delta - so that a bound and the trust-region boundary, or
    two bounds, are reached in the same step."""
    n = int(rng.integers(1, 7))
    delta = float(gen.pick(rng, [1.0, 0.5, 2.0, 4.0, 0.25, 1e-3, 3.0]))
    sgn = rng.choice([-1.0, 1.0], size=n)
    mag = float(gen.pick(rng, [1.0, 2.0, 0.5, 1e-3, 8.0]))
    g = sgn * mag
    if rng.random() < 0.3:
        g[int(rng.integers(n))] *= 2.0
    if rng.random() < 0.2:
        g[int(rng.integers(n))] = 0.0
    hk = int(rng.integers(0, 4))
    if hk == 0:
        H = np.zeros((n, n))
    elif hk == 1:
        H = np.eye(n) * float(gen.pick(rng, [1.0, 2.0, 0.5, mag / delta, 2 * mag / delta]))
    elif hk == 2:
        H = np.ones((n, n)) * float(gen.pick(rng, [1.0, 0.5, mag / delta]))
    else:
        H = -np.eye(n) * float(gen.pick(rng, [1.0, 0.5]))
    xopt = np.zeros(n) if rng.random() < 0.6 else rng.integers(-3, 4, size=n).astype(float)
    sl = xopt - 10.0 * delta
    su = xopt + 10.0 * delta
    k = int(rng.integers(1, n + 1))
    cands = [delta / np.sqrt(k), delta / np.sqrt(n), delta, delta / 2, delta / 4, 0.0, delta * 0.75, mag / max(1e-300, abs(H[0, 0])) if H[0, 0] > 0 else delta / 8]
    for j in range(n):
        if rng.random() < 0.7:
            c = float(gen.pick(rng, cands))
            if g[j] > 0:
                sl[j] = xopt[j] - c       # descent direction is -g: the lower bound is the one that matters
            else:
                su[j] = xopt[j] + c
            if rng.random() < 0.2:
                sl[j], su[j] = min(sl[j], xopt[j]), max(su[j], xopt[j])
    return xopt, g, H, sl, su, delta, 6 + hk


def gen_input(rng):
    if rng.random() < 0.2:
        return gen_ties(rng)
    n = int(rng.integers(1, 9))
    gs = 10.0 ** rng.integers(-3, 4)
    g = rng.normal(size=n) * gs
    if rng.random() < 0.15:
        g[rng.integers(n)] = 0.0
    hk = int(rng.integers(0, 6))
    if hk == 0:
        J = rng.normal(size=(n + 2, n)); H = 2 * J.T @ J
    elif hk == 1:
        J = rng.normal(size=(max(1, n - 2), n)); H = 2 * J.T @ J
    elif hk == 2:
        H = np.zeros((n, n))
    elif hk == 3:
        M = rng.normal(size=(n, n)); H = M + M.T
    elif hk == 4:
        J = rng.normal(size=(n, n)) * 1e-3; H = 2 * J.T @ J
    else:
        H = np.diag(np.abs(rng.normal(size=n)) * 10.0 ** rng.uniform(-2, 2, size=n))
    H = H * 10.0 ** rng.integers(-2, 3)
    if rng.random() < 0.3:
        H = H * gs      # curvature commensurate with the gradient: interior and boundary solutions both occur
    delta = float(10.0 ** rng.uniform(-6, 2))
    xopt = rng.normal(size=n) * (10.0 ** rng.integers(-1, 4) if rng.random() < 0.3 else 1.0)
    sl = xopt - np.abs(rng.normal(size=n)) * 10.0 ** rng.uniform(-3, 1, size=n)
    su = xopt + np.abs(rng.normal(size=n)) * 10.0 ** rng.uniform(-3, 1, size=n)
    for j in range(n):
        u = rng.random()
        if u < 0.12:
            sl[j] = xopt[j]
        elif u < 0.24:
            su[j] = xopt[j]
        elif u < 0.30:
            sl[j] = xopt[j] - 1e-13 * delta
        elif u < 0.36:
            su[j] = xopt[j] + 1e-13 * delta
        elif u < 0.50:
            sl[j] = xopt[j] - delta * rng.random()      # lower bound within the trust region
        elif u < 0.64:
            su[j] = xopt[j] + delta * rng.random()      # upper bound within the trust region
        elif u < 0.74:
            sl[j] = -1e20; su[j] = 1e20
    return xopt, g, H, sl, su, delta, hk


def run_direct(case, res):
    st = res["stats"]
    f = contracts.contracted("trsbox")
    contracts.STRICT = False
    for k in range(case["start"], case["start"] + case["count"]):
        rng = engine.rng_for(case["seed"], NUM, k)
        xopt, g, H, sl, su, delta, hk = gen_input(rng)
        if k % 11 == 7:
            # the same geometry around an integer-typed current point (np.array([0, 2, -1])): a legitimate spelling of the argument
            shift = xopt - np.rint(xopt)
            sl, su = sl - shift, su - shift
            xopt = np.rint(xopt).astype(np.int64)
            st["direct_calls_integer_typed_xopt"] = st.get("direct_calls_integer_typed_xopt", 0) + 1
        contracts.drain()
        try:
            d, gnew, crvmin = f(xopt, g, H, sl, su, delta)
        except contracts.PostBroken:
            pass
        except Exception as e:
            res["viol"].append(V("exception", "trsbox raised %r on valid input %d" % (e, k), k=k))
            continue
        st["direct_calls"] = st.get("direct_calls", 0) + 1
        st["Hkind|%d" % hk] = st.get("Hkind|%d" % hk, 0) + 1
        for w in contracts.drain():
            if len(res["viol"]) < 8:
                res["viol"].append(V(w["kind"], "synthetic input %d (n=%d, H kind %d, delta=%.2e): %s" % (k, len(g), hk, delta, w["msg"]),
                                     input_index=k, **w["witness"]))
        if np.all(np.isfinite(d)):
            on_ball = np.linalg.norm(d) >= delta * (1 - 1e-6)
            on_bound = bool(np.any((xopt + d <= sl) | (xopt + d >= su)))
            if on_ball:
                st["direct_on_ball"] = st.get("direct_on_ball", 0) + 1
            if on_bound:
                st["direct_on_bound"] = st.get("direct_on_bound", 0) + 1
            if on_ball or on_bound:
                res["nontrivial"].append("d%d" % k)
        if k % 3000 == 0:
            res["sample"] = dict(kind="direct", index=k, n=len(g), Hkind=hk, delta=delta, g=g, sl_minus_xopt=sl - xopt,
                                 su_minus_xopt=su - xopt, d=d, q=contracts.qval(g, H, d),
                                 q_cauchy=contracts.cauchy_value(xopt, g, H, sl, su, delta))


def make_situ_cfg(seed, i):
    rng = engine.rng_for(seed, NUM, i, 2)
    spec = gen.gen_problem(rng, kinds=("linear", "sinlin", "exp", "rosen", "target"), nmax=6, mmax=8)
    n = spec["n"]
    box = gen.gen_box(rng, n, one_sided_p=0.2, scaling_p=0.3, place_p=0.4)
    if spec["kind"] == "target":
        lo = gen.arr(box["lower"], n, -10.0)
        hi = gen.arr(box["upper"], n, 10.0)
        spec.update(m=n, t=(lo + (hi - lo) * rng.uniform(-0.5, 1.5, size=n)).tolist(), w=np.ones(n).tolist(), couple=None, trap=False)
    args = dict(rhobeg=box["rhobeg"], rhoend=box["rhobeg"] * float(10.0 ** rng.integers(-8, -2)), maxfun=int(gen.pick(rng, [40, 100, 200])))
    if box["scaling"]:
        args["scaling_within_bounds"] = True
    if rng.random() < 0.3:
        args["npt"] = int(rng.integers(n + 1, 2 * n + 2))
    up = gen.gen_options(rng, n, npt=args.get("npt"), allow=("restarts", "regression", "growing"), restarts_p=0.2)["user_params"]
    return dict(prob=spec, x0=box["x0"], lower=box["lower"], upper=box["upper"], args=args, user_params=up)


def run_insitu(case, res):
    st = res["stats"]
    contracts.install_insitu(["trsbox"])
    contracts.STRICT = False
    cfg = case.get("cfg") or make_situ_cfg(case["seed"], case["i"])
    case["cfg"] = cfg
    before = contracts.COUNTS["trsbox.ball"]
    contracts.drain()
    run = gen.run_cfg(cfg, timeout=120)
    oracles.common_stats(run, st)
    st["insitu_contract_evaluations"] = contracts.COUNTS["trsbox.ball"] - before
    for w in contracts.drain():
        if len(res["viol"]) < 6:
            res["viol"].append(V(w["kind"], "in situ (run %d): %s" % (case["i"], w["msg"]), **w["witness"]))
    if run.timeout:
        res["inconclusive"].append("watchdog")
    if st["insitu_contract_evaluations"] > 0:
        res["nontrivial"].append("s" + oracles.cfg_hash(cfg))
    if case["i"] % 100 == 0:
        res["sample"] = dict(kind="insitu", case=case["i"], prob=cfg["prob"], args=cfg["args"],
                             trsbox_calls_checked=st["insitu_contract_evaluations"], calls=len(run.ctx.calls))


def run_case(case):
    res = dict(stats={}, viol=[], nontrivial=[], inconclusive=[])
    before = dict(contracts.COUNTS)
    if case["type"] == "direct":
        run_direct(case, res)
    else:
        run_insitu(case, res)
    for k, v in contracts.COUNTS.items():
        dv = v - before.get(k, 0)
        if dv:
            res["stats"]["contract|" + k] = dv
    return res


def finalize(agg):
    st = agg["stats"]
    reasons = []
    if st.get("direct_calls", 0) < 0.95 * NDIRECT[agg["tier"]]:
        reasons.append("only %d direct contract evaluations" % st.get("direct_calls", 0))
    if st.get("insitu_contract_evaluations", 0) < 1000:
        reasons.append("in-situ contract evaluated only %d times (binding not reached?)" % st.get("insitu_contract_evaluations", 0))
    for k in range(6):
        if st.get("Hkind|%d" % k, 0) < 50:
            reasons.append("H kind %d driven only %d times" % (k, st.get("Hkind|%d" % k, 0)))
    cov = dict(evaluations=int(st.get("direct_calls", 0) + st.get("insitu_contract_evaluations", 0)),
               contract_evaluations=dict(trsbox_direct=int(st.get("direct_calls", 0)),
                                         trsbox_in_situ=int(st.get("insitu_contract_evaluations", 0))),
               direct_steps_on_ball=int(st.get("direct_on_ball", 0)), direct_steps_on_bound=int(st.get("direct_on_bound", 0)),
               solver_runs_in_situ=int(st.get("runs", 0)), have_icontract=contracts.HAVE_ICONTRACT,
               clause_evaluations={k[9:]: int(v) for k, v in st.items() if k.startswith("contract|")})
    return cov, reasons

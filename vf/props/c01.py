"""C01 - bound constraints are never violated at any evaluation point (exact, no tolerance)."""
import numpy as np
from .. import engine, gen, oracles

ID = "C01"
NUM = 1
LEVEL = "exploration"
RULE = ("seeded random bounded problems x adversarial x0 placement x option space; every recorded objfun argument and "
        "soln.x tested exactly against [lower, upper]; a case is non-trivial (and counted once per distinct configuration "
        "hash) when it is bounded, made >= 1 evaluation and at least one evaluated coordinate lay exactly on a bound "
        "(i.e. clipping was active)")
ASSUMPTIONS = ["the recorder sees exactly the arrays dfols passes to objfun (copied before the call)",
               "numpy comparisons are exact IEEE comparisons",
               "sampled, not exhaustive: held on the executions listed under coverage"]
N = {"quick": 900, "thorough": 24000}
CASE_TIMEOUT = {"quick": 120, "thorough": 300}


def make_cfg(seed, i):
    rng = engine.rng_for(seed, NUM, i)
    r = rng.random
    kinds = ("linear", "sinlin", "exp", "rosen", "dom", "dom")
    spec = gen.gen_problem(rng, kinds=kinds, nmax=5, mmax=7, noise_p=0.2)
    n = spec["n"]
    box = gen.gen_box(rng, n)
    if spec["kind"] == "dom" and spec.get("noise"):
        spec.pop("noise")
    npt = int(rng.integers(n + 1, 2 * n + 2)) if r() < 0.3 else None
    opt = gen.gen_options(rng, n, npt=npt)
    args = dict(rhobeg=box["rhobeg"], rhoend=box["rhobeg"] * float(10.0 ** rng.integers(-7, -1)),
                maxfun=int(gen.pick(rng, [8, 30, 80, 200])))
    if npt is not None:
        args["npt"] = npt
    if box["scaling"]:
        args["scaling_within_bounds"] = True
    if spec.get("noise"):
        args["objfun_has_noise"] = bool(r() < 0.7)
    cfg = dict(prob=spec, x0=box["x0"], lower=box["lower"], upper=box["upper"], args=args, user_params=opt["user_params"])
    ns = int(gen.pick(rng, [1, 1, 1, 2, 3]))
    if ns > 1:
        cfg["nsamples"] = dict(kind="const", v=ns)
    # regularised objectives (unscaled: regulariser + scaling is finding D8, owned by C06)
    if r() < 0.12 and not box["scaling"]:
        cfg["reg"] = dict(type=gen.pick(rng, ["l1", "l2"]), lam=float(10.0 ** rng.uniform(-2, 0)))
        cfg["args"]["maxfun"] = min(cfg["args"]["maxfun"], 40)
        cfg["user_params"].pop("logging.save_diagnostic_info", None)
    # projections + bounds (npt = n+1 only: D19), user box is then part of the projection list (projected last)
    elif r() < 0.1 and not box["scaling"] and npt is None and "growing.ndirs_initial" not in cfg["user_params"] \
            and "restarts.increase_npt" not in cfg["user_params"] and spec["kind"] != "dom":
        lo = gen.arr(box["lower"], n, -np.inf)
        hi = gen.arr(box["upper"], n, np.inf)
        z = np.where(np.isfinite(lo) & np.isfinite(hi), 0.5 * (np.maximum(lo, -1e300) + np.minimum(hi, 1e300)),
                     np.where(np.isfinite(lo), lo + 1.0, np.where(np.isfinite(hi), hi - 1.0, 0.0)))
        gapmin = float(np.min(np.where(np.isfinite(hi - lo), hi - lo, np.inf)))
        rad = (0.6 + r()) * (gapmin if np.isfinite(gapmin) else 2.0)
        cfg["proj"] = [dict(type="ball", c=z.tolist(), r=float(rad))]
        cfg["user_params"].pop("init.random_initial_directions", None)
        cfg["user_params"].pop("init.random_directions_make_orthogonal", None)
        cfg["args"]["maxfun"] = min(cfg["args"]["maxfun"], 60)
    return cfg


def cases(tier, seed):
    return [dict(i=i, seed=seed) for i in range(N[tier])]


def setup():
    engine.install_core_monitors()
    engine.install_log_tap()


def run_case(case):
    cfg = case.get("cfg") or make_cfg(case["seed"], case["i"])
    case["cfg"] = cfg
    run = gen.run_cfg(cfg, timeout=CASE_TIMEOUT["quick"])
    b = run.built
    st = oracles.common_stats(run)
    viol, n_on = oracles.box_violations(run, b.lo, b.hi)
    res = dict(stats=st, viol=viol, nontrivial=[], inconclusive=[])
    st["coords_exactly_on_a_bound"] = n_on
    if run.livelock:
        res["inconclusive"].append("livelock guard fired (owned by C07/C10)")
    if run.timeout:
        res["inconclusive"].append("watchdog")
    nan_hist = sum(1 for c in run.ctx.calls if c["r"] is not None and np.isnan(c["r"]).any())
    if cfg["prob"]["kind"] == "dom":
        st["dom_runs"] = 1
        st["dom_nan_evaluations"] = nan_hist
        if nan_hist and not viol:
            # the in-situ trap: sqrt of a negative number means a bound was overshot
            viol.append(oracles.V("domain-trap", "domain-restricted residual returned NaN at %d evaluation(s)" % nan_hist))
    if len(run.ctx.calls) >= 1 and n_on > 0:
        res["nontrivial"].append(oracles.cfg_hash(cfg))
    if case["i"] % 97 == 0:
        res["sample"] = dict(case=case["i"], prob=cfg["prob"], lower=cfg["lower"], upper=cfg["upper"], x0=cfg["x0"],
                             args=cfg["args"], user_params=cfg["user_params"], evaluations=len(run.ctx.calls),
                             coords_on_bound=n_on, flag=(run.soln.flag if run.soln is not None else None),
                             exc=(repr(run.exc) if run.exc is not None else None))
    return res


def finalize(agg):
    st = agg["stats"]
    reasons = []
    runs = st.get("runs", 0)
    if st.get("objfun_calls", 0) < 10 * max(1, runs) * 0.3:
        reasons.append("too few objective evaluations observed (%d over %d runs)" % (st.get("objfun_calls", 0), runs))
    nexc = sum(v for k, v in st.items() if k.startswith("exc|"))
    if nexc > 0.05 * max(1, runs):
        reasons.append("%d of %d runs raised before the oracle could see a complete history" % (nexc, runs))
    if st.get("coords_exactly_on_a_bound", 0) == 0:
        reasons.append("no evaluated coordinate ever lay on a bound: the clipping paths were not exercised")
    cov = dict(objfun_calls=int(st.get("objfun_calls", 0)),
               exit_sites_seen={k[5:]: int(v) for k, v in st.items() if k.startswith("exit|")},
               option_keys_exercised=sorted(k[4:] for k in st if k.startswith("opt|")),
               restarts_seen=dict(soft=int(st.get("soft_restarts", 0)), hard=int(st.get("hard_restarts", 0))))
    return cov, reasons

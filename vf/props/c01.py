"""C01 - bound constraints are never violated at any evaluation point (exact, no tolerance)."""
import numpy as np
from .. import engine, gen, oracles, campaign

ID = "C01"
NUM = 1
LEVEL = "exploration"
RULE = ("seeded random bounded problems x adversarial x0 placement x option space; every recorded objfun argument and "
        "soln.x tested exactly against [lower, upper]; a case is non-trivial (and counted once per distinct configuration "
        "hash) when it is bounded, made >= 1 evaluation and at least one evaluated coordinate lay exactly on a bound "
        "(i.e. clipping was active)"
        ' Second session: termination enumeration (run ended at every budget and at every new minimum of active-bound references, half of them growing with new directions every iteration); integer-typed starts outside non-integer bounds; growing sets with more than n directions; calling forms (gen.FORMS) sampled.')
ASSUMPTIONS = ["the recorder sees exactly the arrays dfols passes to objfun (copied before the call)",
               "numpy comparisons are exact IEEE comparisons",
               "sampled, not exhaustive: held on the executions listed under coverage"]
N = {"quick": 1400, "thorough": 30000}
CASE_TIMEOUT = {"quick": 120, "thorough": 300}


def make_cfg(seed, i):
    rng = engine.rng_for(seed, NUM, i)
    r = rng.random
    kinds = ("linear", "sinlin", "exp", "rosen", "dom", "dom")
    spec = gen.gen_problem(rng, kinds=kinds, nmax=5, mmax=7, noise_p=0.2)
    n = spec["n"]
    box = gen.gen_box(rng, n)
    if spec["kind"] == "dom" and spec.get("noise"):
        spec.pop("noise")
    npt = int(rng.integers(n + 1, 2 * n + 2)) if r() < 0.3 else None
    opt = gen.gen_options(rng, n, npt=npt)
    args = dict(rhobeg=box["rhobeg"], rhoend=box["rhobeg"] * float(10.0 ** rng.integers(-7, -1)),
                maxfun=int(gen.pick(rng, [8, 30, 80, 200])))
    if npt is not None:
        args["npt"] = npt
    if box["scaling"]:
        args["scaling_within_bounds"] = True
    if spec.get("noise"):
        args["objfun_has_noise"] = bool(r() < 0.7)
    cfg = dict(prob=spec, x0=box["x0"], lower=box["lower"], upper=box["upper"], args=args, user_params=opt["user_params"])
    ns = int(gen.pick(rng, [1, 1, 1, 2, 3]))
    if ns > 1:
        cfg["nsamples"] = dict(kind="const", v=ns)
    # regularised objectives (unscaled: regulariser + scaling is finding D8, owned by C06)
    if r() < 0.12 and not box["scaling"]:
        cfg["reg"] = dict(type=gen.pick(rng, ["l1", "l2"]), lam=float(10.0 ** rng.uniform(-2, 0)))
        cfg["args"]["maxfun"] = min(cfg["args"]["maxfun"], 40)
        cfg["user_params"].pop("logging.save_diagnostic_info", None)
    # projections + bounds (npt = n+1 only: D19), user box is then part of the projection list (projected last)
    elif r() < 0.1 and not box["scaling"] and npt is None and "growing.ndirs_initial" not in cfg["user_params"] \
            and "restarts.increase_npt" not in cfg["user_params"] and spec["kind"] != "dom":
        lo = gen.arr(box["lower"], n, -np.inf)
        hi = gen.arr(box["upper"], n, np.inf)
        z = np.where(np.isfinite(lo) & np.isfinite(hi), 0.5 * (np.maximum(lo, -1e300) + np.minimum(hi, 1e300)),
                     np.where(np.isfinite(lo), lo + 1.0, np.where(np.isfinite(hi), hi - 1.0, 0.0)))
        gapmin = float(np.min(np.where(np.isfinite(hi - lo), hi - lo, np.inf)))
        rad = (0.6 + r()) * (gapmin if np.isfinite(gapmin) else 2.0)
        cfg["proj"] = [dict(type="ball", c=z.tolist(), r=float(rad))]
        cfg["user_params"].pop("init.random_initial_directions", None)
        cfg["user_params"].pop("init.run_in_parallel", None)
        cfg["user_params"].pop("init.random_directions_make_orthogonal", None)
        cfg["args"]["maxfun"] = min(cfg["args"]["maxfun"], 60)
    campaign.maybe_failpoint(cfg, rng, p=0.08)
    return cfg


FAMILIES = ["plain", "scaled", "scaled", "soft_inc_npt", "soft", "hard", "hard_inc_npt", "growing", "momentum", "regression",
            "random_init", "averaging", "reg", "one_sided"]


def make_active_cfg(seed, i):
    """Directed: the minimiser lies outside the box in most coordinates, so the iterates sit on the bounds while one option
    family at a time (restarts with growing npt, growing, momentum/regression steps, random init, averaging, regulariser,
    scaling) generates its points right next to them."""
    rng = engine.rng_for(seed, NUM, i, 1)
    r = rng.random
    fam = FAMILIES[i % len(FAMILIES)]
    n = int(rng.integers(1, 6))
    if fam in ("growing", "momentum", "regression", "soft_inc_npt", "hard_inc_npt") and n == 1:
        n = 2
    box = gen.gen_box(rng, n, one_sided_p=(1.0 if fam == "one_sided" else 0.0), scaling_p=(1.0 if fam == "scaled" else 0.0),
                      place_p=0.5, tight_p=0.15)
    lo = gen.arr(box["lower"], n, -np.inf)
    hi = gen.arr(box["upper"], n, np.inf)
    gap = np.where(np.isfinite(hi - lo), hi - lo, 1.0)
    ref_lo = np.where(np.isfinite(lo), lo, hi - gap)
    ref_hi = np.where(np.isfinite(hi), hi, lo + gap)
    t = np.empty(n)
    for j in range(n):
        u = r()
        if u < 0.4:
            t[j] = ref_hi[j] + gap[j] * (0.05 + 2 * r())
        elif u < 0.8:
            t[j] = ref_lo[j] - gap[j] * (0.05 + 2 * r())
        else:
            t[j] = ref_lo[j] + gap[j] * r()
    w = (1.0 / gap) * 10.0 ** rng.uniform(-0.5, 0.5, size=n)
    spec = dict(kind="target", n=n, m=n, pseed=int(rng.integers(0, 2 ** 31)), t=t.tolist(), w=w.tolist(),
                couple=(rng.normal(size=n) / gap).tolist() if r() < 0.5 else None, trap=bool(r() < 0.7))
    rhobeg = box["rhobeg"]
    args = dict(rhobeg=rhobeg, rhoend=rhobeg * float(10.0 ** rng.integers(-6, -1)), maxfun=int(gen.pick(rng, [40, 80, 150])))
    up = {}
    if box["scaling"]:
        args["scaling_within_bounds"] = True
    if fam in ("soft", "soft_inc_npt", "hard", "hard_inc_npt"):
        up["restarts.use_restarts"] = True
        args["rhoend"] = rhobeg * float(10.0 ** rng.integers(-3, 0)) * 0.5   # reach rhoend quickly: many restarts
        if fam.startswith("hard"):
            up["restarts.use_soft_restarts"] = False
            if r() < 0.5:
                up["restarts.hard.use_old_rk"] = False
        else:
            if r() < 0.3:
                up["restarts.soft.move_xk"] = False
        if fam.endswith("inc_npt"):
            cap = (n + 1) * (n + 2) // 2
            up["restarts.increase_npt"] = True
            up["restarts.max_npt"] = int(min(n + 1 + rng.integers(1, n + 3), cap))
            if r() < 0.5:
                up["restarts.increase_npt_amt"] = 2
                up["restarts.hard.increase_ndirs_initial_amt"] = 2
        if r() < 0.3:
            up["restarts.rhoend_scale"] = float(gen.pick(rng, [0.5, 0.1]))
        up["restarts.max_unsuccessful_restarts"] = int(gen.pick(rng, [3, 10]))
    elif fam == "growing":
        up["growing.ndirs_initial"] = int(rng.integers(1, n))
        if r() < 0.5:
            up["growing.num_new_dirns_each_iter"] = 1
        if r() < 0.4:
            up["growing.do_geom_steps"] = True
        if r() < 0.3:
            up["growing.full_rank.use_full_rank_interp"] = False
            up["growing.perturb_trust_region_step"] = True
    elif fam in ("momentum", "regression"):
        args["npt"] = int(rng.integers(n + 2, 2 * n + 2))
        up["regression.num_extra_steps"] = int(rng.integers(1, 3))
        if fam == "momentum":
            up["regression.momentum_extra_steps"] = True
    elif fam == "random_init":
        up["init.random_initial_directions"] = True
        if r() < 0.4:
            up["init.random_directions_make_orthogonal"] = False
        if r() < 0.4:
            args["npt"] = int(rng.integers(n + 1, 2 * n + 2))
    cfg = dict(prob=spec, x0=box["x0"], lower=box["lower"], upper=box["upper"], args=args, user_params=up)
    if fam == "averaging":
        cfg["nsamples"] = dict(kind="const", v=int(rng.integers(2, 4)))
        spec["noise"] = 1e-3
        spec["nseed"] = int(rng.integers(0, 2 ** 31))
        spec["trap"] = False
    elif fam == "reg":
        cfg["reg"] = dict(type=gen.pick(rng, ["l1", "l2"]), lam=float(10.0 ** rng.uniform(-2, 0)))
        args["maxfun"] = 40
    if r() < 0.12:
        # the run ends while x0 is still being evaluated: warm start below abs_tol, or the budget expiring inside the x0 sampling loop
        if r() < 0.5:
            up["model.abs_tol"] = 1e12
        else:
            cfg["nsamples"] = dict(kind="const", v=int(rng.integers(2, 5)))
            args["maxfun"] = int(rng.integers(1, 3))
            spec["trap"] = False
    cfg["_family"] = fam
    return cfg


# regression cases for repaired defects that only a particular seed of the random workload had reached (a fixed entry of
# KNOWN_FINDINGS.txt suppresses nothing: if the defect returns, these report it in every run)
REGRESSION = [
    # a4aaa6a: x0 a denormal above a bound + growing initial set -> zero-length direction normalised to NaN -> objfun called at NaN
    dict(prob=dict(kind="rosen", n=3, m=1, pseed=845931981), x0=[0.5801240049765265, 2.4290886328325557e-14, 5e-324],
         lower=[0.01, -0.0, -0.0], upper=[0.66, 3.0, None], args=dict(rhobeg=0.1, rhoend=0.001, maxfun=30),
         user_params={"growing.ndirs_initial": 1}, _salt=0),   # (_salt only selects the random directions: 10 of 30 salts reach it)
    dict(prob=dict(kind="rosen", n=3, m=1, pseed=845931981), x0=[0.5801240049765265, 2.4290886328325557e-14, 5e-324],
         lower=[0.01, -0.0, -0.0], upper=[0.66, 3.0, None], args=dict(rhobeg=0.1, rhoend=0.001, maxfun=30),
         user_params={"growing.ndirs_initial": 1}, _salt=5),
    # 90bcc32: growing initial set with more than n directions (npt = 2n, n directions to start with): the new direction, made
    # orthogonal to a spanning set, was rounding noise or zero -> objfun called at a NaN point (or ZeroDivisionError)
    dict(prob=dict(kind="exp", n=4, m=3, pseed=237453089), x0=[-0.23161313820742543, -0.2155075174756916, -2.5890377988221207, -3.48262552405398],
         lower=None, upper=None, args=dict(maxfun=60, rhoend=1e-06, npt=8),
         user_params={"restarts.use_restarts": True, "restarts.use_soft_restarts": False, "restarts.rhoend_scale": 0.5,
                      "growing.ndirs_initial": 4, "growing.do_geom_steps": True}),
]


def cases(tier, seed):
    nw = N[tier] // 2
    out = [dict(i=i, seed=seed, type="wide") for i in range(nw)]
    out += [dict(i=nw + j, seed=seed, type="active") for j in range(N[tier] - nw)]
    out += [dict(i=N[tier] + k, seed=seed, type="regression", cfg=c) for k, c in enumerate(REGRESSION)]
    base = N[tier] + len(REGRESSION)
    out += [dict(i=base + k, seed=seed, type="enum") for k in range(NENUM[tier])]
    return out


def setup():
    engine.install_core_monitors()
    engine.install_log_tap()


NENUM = {"quick": 84, "thorough": 1500}
ENUM_FAMILIES = ["growing", "averaging", "growing", "scaled", "growing", "soft_inc_npt", "growing", "regression", "growing", "reg", "growing", "plain"]


def make_enum_cfg(seed, i):
    """Reference configuration for the termination enumeration: an active-bound problem of a family whose points are generated
    next to the bounds, small enough that ending the run at every call is affordable; growing sets add directions every iteration."""
    fam = ENUM_FAMILIES[i % len(ENUM_FAMILIES)]
    j = FAMILIES.index(fam) + len(FAMILIES) * (7 * i + 3)     # make_active_cfg picks the family from its index
    cfg = make_active_cfg(seed, j)
    g = np.random.default_rng([int(seed), NUM, int(i), 6])
    cfg["args"]["maxfun"] = int(gen.pick(g, [25, 40]))
    cfg["prob"]["trap"] = False
    up = cfg["user_params"]
    if fam == "growing":
        up["growing.num_new_dirns_each_iter"] = int(gen.pick(g, [1, 1, 2]))
        if g.random() < 0.5 and not cfg["prob"].get("noise"):
            cfg["nsamples"] = dict(kind="const", v=int(g.integers(2, 4)))
    cfg.pop("failpoint", None)
    cfg["_family"] = "enum-" + fam
    return cfg


def run_enum(case):
    """End the run at every budget 1..nf and at every evaluation that sets a new minimum (exit inside initialisation, growing
    steps, geometry / regression steps, restarts): the box test on every call and on soln.x, which at such exits comes from the
    saved-point path instead of the model."""
    cfg = make_enum_cfg(case["seed"], case["i"])
    case["cfg"] = cfg
    ref = gen.run_cfg(cfg, timeout=CASE_TIMEOUT["quick"])
    b = ref.built
    st = oracles.common_stats(ref)
    viol, n_on = oracles.box_violations(ref, b.lo, b.hi)
    res = dict(stats=st, viol=viol, nontrivial=[], inconclusive=[])
    st["family|" + cfg["_family"]] = 1
    if ref.exc is not None or ref.timeout or ref.livelock:
        return res
    h = b.h_raw if b.h is not None else None
    ders = campaign.exit_index_cfgs(cfg, ref, h=h, max_cases=16) + campaign.budget_index_cfgs(cfg, ref, max_cases=24)
    for c2 in ders:
        run = gen.run_cfg(c2, timeout=CASE_TIMEOUT["quick"])
        oracles.common_stats(run, st)
        v2, on2 = oracles.box_violations(run, run.built.lo, run.built.hi)
        n_on += on2
        st["enum_derived_runs"] = st.get("enum_derived_runs", 0) + 1
        fe = oracles.final_exit(run)
        if fe:
            st["enum_exit_site|%s" % fe[2]] = st.get("enum_exit_site|%s" % fe[2], 0) + 1
        for v in v2:
            v["msg"] = "[%s %s] %s" % (c2["_derived"]["kind"], c2["_derived"].get("M", c2["_derived"].get("j")), v["msg"])
            v["witness"]["derived"] = c2["_derived"]
        if v2 and len(res["viol"]) < 6:
            res["viol"].extend(v2[:2])
            case["cfg"] = c2
    st["coords_exactly_on_a_bound"] = n_on
    if n_on > 0:
        res["nontrivial"].append(oracles.cfg_hash(cfg))
    return res


def run_case(case):
    if case.get("type") == "enum":
        return run_enum(case)
    fresh = not case.get("cfg")
    cfg = case.get("cfg") or (make_cfg(case["seed"], case["i"]) if case.get("type", "wide") == "wide"
                              else make_active_cfg(case["seed"], case["i"]))
    if fresh and case["i"] % 13 == 5 and not cfg["args"].get("scaling_within_bounds"):
        # integer-typed start (np.array([0, 2, -1])), usually outside bounds that are not integers: it has to be moved ONTO the bound
        cfg["x0"] = np.rint(np.array(cfg["x0"], dtype=float)).tolist()
        cfg["_x0_int"] = True
        cfg["_family"] = (cfg.get("_family") or "wide") + "+int-x0"
    case["cfg"] = cfg
    run = gen.run_cfg(cfg, timeout=CASE_TIMEOUT["quick"])
    b = run.built
    st = oracles.common_stats(run)
    viol, n_on = oracles.box_violations(run, b.lo, b.hi)
    res = dict(stats=st, viol=viol, nontrivial=[], inconclusive=[])
    st["coords_exactly_on_a_bound"] = n_on
    if run.livelock:
        res["inconclusive"].append("livelock guard fired (owned by C07/C10)")
    if run.timeout:
        res["inconclusive"].append("watchdog")
    nan_hist = sum(1 for c in run.ctx.calls if c["r"] is not None and np.isnan(c["r"]).any())
    if cfg.get("_family"):
        st["family|" + cfg["_family"]] = st.get("family|" + cfg["_family"], 0) + 1
    if cfg["prob"]["kind"] == "dom" or cfg["prob"].get("trap"):
        st["dom_runs"] = 1
        st["dom_nan_evaluations"] = nan_hist
        if nan_hist and not viol:
            # the in-situ trap: sqrt of a negative number means a bound was overshot
            viol.append(oracles.V("domain-trap", "domain-restricted residual returned NaN at %d evaluation(s)" % nan_hist))
    if len(run.ctx.calls) >= 1 and n_on > 0:
        res["nontrivial"].append(oracles.cfg_hash(cfg))
    if case["i"] % 97 == 0:
        res["sample"] = dict(case=case["i"], prob=cfg["prob"], lower=cfg["lower"], upper=cfg["upper"], x0=cfg["x0"],
                             args=cfg["args"], user_params=cfg["user_params"], evaluations=len(run.ctx.calls),
                             coords_on_bound=n_on, flag=(run.soln.flag if run.soln is not None else None),
                             exc=(repr(run.exc) if run.exc is not None else None))
    return res


def finalize(agg):
    st = agg["stats"]
    reasons = []
    runs = st.get("runs", 0)
    if st.get("objfun_calls", 0) < 10 * max(1, runs) * 0.3:
        reasons.append("too few objective evaluations observed (%d over %d runs)" % (st.get("objfun_calls", 0), runs))
    nexc = sum(v for k, v in st.items() if k.startswith("exc|"))
    if nexc > 0.05 * max(1, runs):
        reasons.append("%d of %d runs raised before the oracle could see a complete history" % (nexc, runs))
    if st.get("coords_exactly_on_a_bound", 0) == 0:
        reasons.append("no evaluated coordinate ever lay on a bound: the clipping paths were not exercised")
    cov = dict(objfun_calls=int(st.get("objfun_calls", 0)),
               exit_sites_seen={k[5:]: int(v) for k, v in st.items() if k.startswith("exit|")},
               option_keys_exercised=sorted(k[4:] for k in st if k.startswith("opt|")),
               restarts_seen=dict(soft=int(st.get("soft_restarts", 0)), hard=int(st.get("hard_restarts", 0))))
    return cov, reasons

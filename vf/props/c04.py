"""C04 - the best point ever evaluated is never lost (deterministic objective, one sample per point)."""
import copy
import numpy as np
from .. import engine, gen, oracles, campaign
from ..oracles import V

ID = "C04"
NUM = 4
LEVEL = "exploration"
RULE = ("deterministic un-averaged problems: random runs with a heavy share of convex-constrained problems (trust-region-increase "
        "exits), tiny budgets, runs started exactly at a minimiser (no run ever improves), growing with several new directions "
        "per iteration, and per reference run the exit-index enumeration (run ended at every evaluation that sets a new minimum) and "
        "budget-index enumeration, and the failpoint enumeration (LinAlgError injected in the Lagrange solve, 'model increases' verdict "
        "injected in the acceptance test, at calls spread over a reference run). Oracle: soln.obj <= every recomputed objective sum(r^2)+h(x) of the history; soln.obj <= f(first "
        "call); final obj <= every run's returned obj; at every iteration min(incumbent, saved slot) <= best recorded so far. "
        "Non-trivial = run that ended at an exit site reached while holding a just-evaluated point not yet installed in the model "
        "(the only moment a point can be lost); distinct by (exit site, configuration hash)"
        ' Second session: un-logged references; batch initialisation with a re-used result buffer; growing with more than n directions; calling forms sampled.')
ASSUMPTIONS = ["objective is deterministic and evaluated once per point (checked: every point has one sample)",
               "comparison slack 1e-12 relative (1e-9*(1+|obj|) on the h part, which dfols evaluates at the internally rounded x)"]
NENUM = {"quick": 90, "thorough": 1800}
NRAND = {"quick": 500, "thorough": 12000}
NPROJ = {"quick": 160, "thorough": 3000}
NMIN = {"quick": 150, "thorough": 3000}
NGROW = {"quick": 150, "thorough": 3000}
NREGSC = {"quick": 90, "thorough": 1500}
NFAILPT = {"quick": 50, "thorough": 900}
NNANREG = {"quick": 80, "thorough": 1500}
NPERTURB = {"quick": 240, "thorough": 4000}
CASE_TIMEOUT = {"quick": 300, "thorough": 900}
NSAMPLES = 5
ABANDON_MSGS = ("MAXFUN", "sufficiently small", "model increase", "multiple constraints", "NaN received")


def cases(tier, seed):
    out = []
    i = 0
    for t, n in (("enum", NENUM[tier]), ("proj", NPROJ[tier]), ("rand", NRAND[tier]), ("atmin", NMIN[tier]), ("grow", NGROW[tier]), ("regscaled", NREGSC[tier]),
                 ("failpt", NFAILPT[tier]), ("nanregion", NNANREG[tier]),
                 ("perturb", NPERTURB[tier])):
        for _ in range(n):
            out.append(dict(i=i, seed=seed, type=t))
            i += 1
    return out


def setup():
    engine.install_core_monitors()
    engine.install_log_tap()
    engine.install_failpoints()


def make_cfg(seed, i, typ):
    rng = engine.rng_for(seed, NUM, i)
    r = rng.random
    if typ == "enum":
        cfg = campaign.gen_cfg(rng, deterministic=True, maxfuns=(20, 30, 45), nmax=3, proj_p=0.08, reg_p=0.06, restarts_p=0.5,
                               term_p=0.0)
        if cfg.get("proj") or cfg.get("reg"):
            cfg["args"]["maxfun"] = min(cfg["args"]["maxfun"], 18)
        if i % 6 == 4 and not cfg.get("proj"):
            # parallel initialisation (all initial points evaluated before any is processed): the exit-index enumeration then ends
            # the run at each of the initial points in turn, with better points evaluated after it
            cfg["user_params"]["init.random_initial_directions"] = True
            cfg["user_params"]["init.run_in_parallel"] = True
            cfg["user_params"].pop("growing.ndirs_initial", None)
            cfg["args"].pop("npt", None)
            if i % 12 == 4:
                # the batch is evaluated before any of it is stored: a residual function that returns one re-used buffer must
                # not end up with every stored point carrying the last evaluation's values
                cfg["_forms"] = ["ret_samebuf"]
        if i % 3 == 2:
            # budget / exit enumeration over a long growing phase (its safety steps evaluate points and can end or restart the run)
            cfg = campaign.long_growing_cfg(rng, deterministic=True)
    elif typ == "rand":
        cfg = campaign.gen_cfg(rng, deterministic=True, restarts_p=0.5, maxfuns=(5, 8, 12, 25, 40, 60, 100))
    elif typ == "proj":
        cfg = campaign.gen_cfg(rng, deterministic=True, restarts_p=0.4, box_p=0.0, proj_p=1.0, reg_p=0.0, npt_p=0.0,
                               allow=("restarts", "tols"), maxfuns=(12, 20, 30), nmax=3)
        cfg["user_params"].pop("restarts.increase_npt", None)
        cfg["user_params"].pop("restarts.max_npt", None)
        cfg["user_params"].pop("restarts.increase_npt_amt", None)
        cfg["user_params"].pop("restarts.hard.increase_ndirs_initial_amt", None)
        if not cfg.get("proj"):
            n = cfg["prob"]["n"]
            sets, z, margin = gen.gen_convex_sets(rng, n, nsets=2)
            cfg["proj"] = sets
            cfg["x0"] = (z + 0.3 * margin * rng.normal(size=n) / np.sqrt(n)).tolist()
            cfg["args"]["rhobeg"] = float(0.3 * margin)
            cfg["args"]["rhoend"] = float(0.3 * margin * 1e-4)
            cfg["args"].pop("npt", None)
        if r() < 0.5:
            # a bound box in addition (it becomes the last projection)
            n = cfg["prob"]["n"]
            x0 = np.array(cfg["x0"])
            cfg["lower"] = (x0 - 0.5 - r()).tolist()
            cfg["upper"] = (x0 + 0.5 + r()).tolist()
    elif typ == "perturb":
        # the other growing method (random perturbation of the trust-region step instead of full-rank interpolation), with a
        # regulariser, in a box whose lower corner the start sits next to: the perturbed step leaves the box and the evaluation is
        # made at the clipped point - every objective value used by the acceptance test must be that of the clipped point
        # (measured: about 2 % of such runs lose their best point on the tree before the repair)
        n = int(rng.integers(2, 5))
        spec = gen.gen_problem(rng, kinds=("linear", "linear", "sinlin"), n=n, m=int(rng.integers(1, n + 2)))
        spec["cond"] = 5.0
        lo = rng.normal(size=n)
        hi = lo + 1.5 + 2.0 * rng.random(n)
        rhobeg = float(gen.pick(rng, [0.1, 0.1, 0.2]))
        x0 = lo + rhobeg * np.where(rng.random(n) < 0.8, 0.5 * rng.random(n) + 0.02, 5 * rng.random(n))
        cfg = dict(prob=spec, x0=np.minimum(x0, hi).tolist(), lower=lo.tolist(), upper=hi.tolist(),
                   user_params={"growing.ndirs_initial": 1, "growing.full_rank.use_full_rank_interp": False,
                                "growing.perturb_trust_region_step": True, "growing.num_new_dirns_each_iter": int(gen.pick(rng, [1, 1, 1, 0, 2]))},
                   args=dict(maxfun=int(gen.pick(rng, [8, 8, 12, 20])), rhoend=1e-6, rhobeg=rhobeg),
                   reg=dict(type=gen.pick(rng, ["l1", "l1", "l2"]), lam=float(10.0 ** rng.uniform(-0.5, 0.5))))
        if r() < 0.15:
            cfg.pop("reg")
    elif typ == "nanregion":
        # objective defined only on a disc around (or next to) x0, NaN outside, radius comparable to rhobeg: initial points,
        # geometry steps and the points a soft restart places around the incumbent land outside. With restarts in every mode.
        n = int(rng.integers(1, 4))
        m = int(rng.integers(n, n + 3))
        x0 = rng.normal(size=n)
        rhobeg = float(10.0 ** rng.uniform(-1, 0))
        R = rhobeg * float(gen.pick(rng, [0.45, 0.9, 1.5, 3.0]))
        off = rng.normal(size=n)
        off = off / np.linalg.norm(off) * R * float(gen.pick(rng, [0.0, 0.0, 0.5, 0.9]))
        spec = dict(kind="nandisc", n=n, m=m, pseed=int(rng.integers(0, 2 ** 31)), scale=1.0, centre=(x0 + off).tolist(), radius=R,
                    base=gen.pick(rng, ["lin", "sin"]))
        up = {}
        mode = gen.pick(rng, ["soft", "soft", "soft", "hard", "none"])
        if mode != "none":
            up["restarts.use_restarts"] = True
            up["restarts.max_unsuccessful_restarts"] = int(gen.pick(rng, [2, 3, 10]))
            if mode == "hard":
                up["restarts.use_soft_restarts"] = False
            else:
                if r() < 0.3:
                    up["restarts.soft.move_xk"] = False
                if r() < 0.3:
                    up["restarts.soft.num_geom_steps"] = int(rng.integers(1, 4))
        cfg = dict(prob=spec, x0=x0.tolist(), lower=None, upper=None, user_params=up,
                   args=dict(maxfun=int(gen.pick(rng, [20, 40, 80])), rhobeg=rhobeg, rhoend=rhobeg * float(10.0 ** rng.uniform(-4, -1.5))))
        if r() < 0.3:
            cfg["args"]["npt"] = int(rng.integers(n + 1, 2 * n + 2))
    elif typ == "failpt":
        # reference run for the failpoint enumeration (LinAlgError in a Lagrange solve / 'model increases' verdict in the
        # acceptance test, at calls spread over the run): restart-heavy, growing and regression variants, bounds
        cfg = campaign.gen_cfg(rng, deterministic=True, restarts_p=0.85, term_p=0.0, reg_p=0.08, proj_p=0.0, maxfuns=(30, 50, 80), nmax=3,
                               npt_p=0.5, allow=("restarts", "regression", "growing", "rare"))
        if cfg.get("reg"):
            cfg["args"]["maxfun"] = min(cfg["args"]["maxfun"], 25)
        if i % 4 == 1:
            cfg = campaign.growing_restart_variant(cfg, rng, nan_fault=False)
        elif i % 4 == 2:
            # linear-algebra failures inside the safety steps of a long growing phase, with soft restarts on: the restart
            # branches of the growing-phase code
            cfg = campaign.long_growing_cfg(rng, deterministic=True, safety=gen.pick(rng, ["full_geom_step", "full_geom_step", "default", "reduce_delta"]))
            cfg["user_params"]["restarts.use_restarts"] = True
            cfg["user_params"].pop("restarts.use_soft_restarts", None)
            if i % 8 == 2:
                cfg["user_params"]["growing.num_new_dirns_each_iter"] = int(rng.integers(2, 4))   # the set can fill up half-way through
    elif typ == "atmin":
        # x0 exactly at a minimiser with non-zero residual: no run ever makes strict progress
        n = int(rng.integers(1, 4))
        m = n + int(rng.integers(1, 4))
        spec = dict(kind="linear", n=n, m=m, pseed=int(rng.integers(0, 2 ** 31)), cond=float(10 ** rng.uniform(0, 1.5)), scale=1.0)
        A, b = gen.linear_data(n, m, spec["pseed"], spec["cond"], 1.0)
        x0 = np.linalg.lstsq(A, b, rcond=None)[0]
        if r() < 0.3:
            x0 = np.round(x0, 3)
        up = {}
        mode = gen.pick(rng, ["soft", "soft", "hard", "none"])
        if mode != "none":
            up["restarts.use_restarts"] = True
            if mode == "hard":
                up["restarts.use_soft_restarts"] = False
                if r() < 0.4:
                    up["restarts.hard.use_old_rk"] = False
            else:
                if r() < 0.3:
                    up["restarts.soft.move_xk"] = False
            up["restarts.max_unsuccessful_restarts"] = int(gen.pick(rng, [2, 3, 10]))
        cfg = dict(prob=spec, x0=x0.tolist(), lower=None, upper=None, user_params=up,
                   args=dict(maxfun=int(gen.pick(rng, [15, 30, 60, 120])), rhobeg=float(10 ** rng.uniform(-2, 0)),
                             rhoend=float(10 ** rng.uniform(-6, -3))))
        if r() < 0.3:
            cfg["reg"] = dict(type="l1", lam=float(10 ** rng.uniform(-2, 0)))
            cfg["args"]["maxfun"] = min(cfg["args"]["maxfun"], 30)
    elif typ == "regscaled":
        # regulariser + scaling_within_bounds (+ restarts): far from optimal by finding D8, but the bookkeeping claims of C04 still
        # apply - every objective value is sum(r^2) + h(x) in the USER's coordinates
        n = int(rng.integers(1, 4))
        spec = gen.gen_problem(rng, kinds=("linear", "sinlin", "rosen"), n=n, m=int(rng.integers(n, n + 3)))
        lo = -(0.5 + 2 * rng.random(n))
        hi = 0.5 + 2 * rng.random(n)
        if r() < 0.5:
            sh = rng.normal(size=n) * 2
            lo, hi = lo + sh, hi + sh
        up = {}
        if r() < 0.7:
            up["restarts.use_restarts"] = True
            if r() < 0.3:
                up["restarts.use_soft_restarts"] = False
            up["restarts.max_unsuccessful_restarts"] = 3
        cfg = dict(prob=spec, x0=(lo + (hi - lo) * rng.random(n)).tolist(), lower=lo.tolist(), upper=hi.tolist(), user_params=up,
                   args=dict(maxfun=int(gen.pick(rng, [15, 25, 40])), rhobeg=0.1, rhoend=float(10.0 ** rng.uniform(-3, -1.5)),
                             scaling_within_bounds=True),
                   reg=dict(type=gen.pick(rng, ["l1", "l2"]), lam=float(10.0 ** rng.uniform(-1.5, 0.5))))
    else:  # grow: several new directions per iteration while growing (the 'full set' branch of add_new_direction_while_growing)
        n = int(rng.integers(2, 5))
        spec = gen.gen_problem(rng, kinds=("linear", "sinlin", "rosen"), n=n, m=int(rng.integers(n, n + 4)))
        up = {"growing.ndirs_initial": int(rng.integers(1, n)), "growing.num_new_dirns_each_iter": int(rng.integers(1, 4))}
        if r() < 0.4:
            up["growing.do_geom_steps"] = True
        if r() < 0.3:
            up["growing.safety.reduce_delta"] = True
        if r() < 0.3:
            up["restarts.use_restarts"] = True
        cfg = dict(prob=spec, x0=(rng.normal(size=n) * 2).tolist(), lower=None, upper=None, user_params=up,
                   args=dict(maxfun=int(gen.pick(rng, [4, 5, 6, 8, 12, 20, 40])), rhoend=1e-6))
        if r() < 0.3:
            box = gen.gen_box(rng, n, scaling_p=0.3, place_p=0.3)
            cfg.update(x0=box["x0"], lower=box["lower"], upper=box["upper"])
            cfg["args"]["rhobeg"] = box["rhobeg"]
            cfg["args"]["rhoend"] = box["rhobeg"] * 1e-5
            if box["scaling"]:
                cfg["args"]["scaling_within_bounds"] = True
    return cfg


HSLACK = [0.0]   # extra allowance on the h part for the run in progress (set per run)


def slack(v, has_h):
    a = 1e-12 * abs(v) + 1e-300
    if has_h:
        a += 1e-9 * (1 + abs(v)) + HSLACK[0]
    return a


def h_slack_for(cfg):
    """With projections the stored point is re-projected (moves by up to ~2 sqrt(p tol)) before dfols evaluates h at it, while the
    harness evaluates h at the point that was passed to objfun: allow the Lipschitz constant of h times that distance."""
    if not (cfg.get("reg") and cfg.get("proj")):
        return 0.0
    n = cfg["prob"]["n"]
    lip = cfg["reg"]["lam"] * (np.sqrt(n) if cfg["reg"]["type"] == "l1" else 1.0)
    p = len(cfg["proj"]) + 1
    scale = 1 + float(np.max(np.abs(cfg["x0"])))
    return float(lip * 2.0 * np.sqrt(p * 1e-10) * scale)


def make_hook(state):
    def hook(model):
        out, st, ctx = state["viol"], state["st"], state["ctx"]
        if len(out) >= 4:
            return
        st["iter_hooks"] = st.get("iter_hooks", 0) + 1
        # best recorded so far
        calls = ctx.calls
        for call in calls[state["done"]:]:
            v = campaign.objective_of_call(call, state["h"])
            if np.isfinite(v) and v < state["best"]:
                state["best"], state["best_k"] = v, call["k"]
        state["done"] = len(calls)
        best = state["best"]
        if not np.isfinite(best):
            return
        held = model.objopt()
        if model.objsave is not None:
            with np.errstate(all="ignore"):
                held = np.nanmin([held, model.objsave]) if not (np.isnan(held) and np.isnan(model.objsave)) else np.nan
        if not (held <= best + slack(best, state["h"] is not None)):
            out.append(V("best-point-not-held", "iteration %d (after %d calls): min(incumbent %r, saved %r) > best recorded %r (call %d)" % (
                ctx.iters, len(calls), float(model.objopt()), model.objsave, best, state["best_k"]),
                objopt=model.objopt(), objsave=model.objsave, best=best, best_call=state["best_k"]))
    return hook


def one_run(cfg, res, tag):
    st = res["stats"]
    ctx = engine.Ctx()
    built = gen.build(cfg, ctx)
    h = built.h_raw if built.h is not None else None
    HSLACK[0] = h_slack_for(cfg)
    state = dict(viol=[], st=st, ctx=ctx, h=h, best=np.inf, best_k=None, done=0)
    ctx.iter_hook = make_hook(state)
    run = gen.run_cfg(cfg, ctx, timeout=(150 if cfg.get("proj") else 60), built=built)
    oracles.common_stats(run, st)
    viol = state["viol"]
    s = run.soln
    if run.exc is None and s is not None and s.flag != s.EXIT_INPUT_ERROR:
        objs = np.array([campaign.objective_of_call(c, h) for c in ctx.calls])
        st["final_checks"] = st.get("final_checks", 0) + 1
        # one sample per point (the property's hypothesis)
        if any(e != p for (e, p, _o) in ctx.evalpairs):
            res["inconclusive"].append("averaged run in a C04 workload")
        fin = objs[np.isfinite(objs)]
        if len(fin):
            kbest = int(np.nanargmin(np.where(np.isfinite(objs), objs, np.inf))) + 1
            best = float(np.min(fin))
            if not (s.obj <= best + slack(best, h is not None)):
                viol.append(V("best-point-lost", "soln.obj=%r > objective %r evaluated at call %d of %d [%s]" % (
                    float(s.obj), best, kbest, len(objs), s.msg[:60]), obj=s.obj, best=best, best_call=kbest, ncalls=len(objs),
                    message=s.msg, xmin_eval_num=s.xmin_eval_num))
            if np.isfinite(objs[0]) and not (s.obj <= objs[0] + slack(objs[0], h is not None)):
                viol.append(V("worse-than-x0", "soln.obj=%r > f(first evaluation)=%r" % (float(s.obj), float(objs[0]))))
        # a later run can only improve on an earlier one
        rets = [sm["ret"]["obj"] for sm in ctx.solve_main if "ret" in sm]
        for ri, ro in enumerate(rets):
            if ro is not None and np.isfinite(ro) and not (s.obj <= ro + slack(ro, h is not None)):
                viol.append(V("run-merge-lost-better-run", "final obj %r > objective %r returned by run %d of %d" % (
                    float(s.obj), float(ro), ri + 1, len(rets))))
                break
        fe = oracles.final_exit(run)
        if fe and any(mm in fe[1] for mm in ABANDON_MSGS) and len(fin) and best < objs[0]:
            key = "%s|%s" % (fe[2], fe[1][:30])
            st["abandon_exit|" + key] = st.get("abandon_exit|" + key, 0) + 1
            res["nontrivial"].append(key + "|" + oracles.cfg_hash(cfg))
    elif run.livelock:
        res["inconclusive"].append("livelock guard fired (owned by C07/C10)")
    elif run.timeout:
        res["inconclusive"].append("watchdog")
    for v in viol:
        v["msg"] = "[%s] %s" % (tag, v["msg"])
    res["viol"].extend(viol[:4])
    return run


def run_case(case):
    res = dict(stats={}, viol=[], nontrivial=[], inconclusive=[])
    typ = case["type"]
    cfg = case.get("cfg") or make_cfg(case["seed"], case["i"], typ)
    if not case.get("cfg") and case["i"] % 5 == 2 and not cfg.get("nsamples"):
        gen.without_logging(cfg)      # as most callers run it; evaluation k is point k (no averaging in this check)
        res["stats"]["references_without_logging"] = 1
    case["cfg"] = cfg
    ref = one_run(cfg, res, typ)
    res["stats"]["family|" + typ] = 1
    nder = 0
    if typ == "enum" and ref.exc is None:
        h = ref.built.h_raw if ref.built.h is not None else None
        for c2 in campaign.exit_index_cfgs(cfg, ref, h=h, max_cases=(30 if cfg.get("_variant") else 20)) + campaign.budget_index_cfgs(cfg, ref, max_cases=(60 if cfg.get("_variant") else 12)):
            one_run(c2, res, "%s %s" % (c2["_derived"]["kind"], c2["_derived"].get("M", c2["_derived"].get("j"))))
            nder += 1
            k = "derived|" + c2["_derived"]["kind"]
            res["stats"][k] = res["stats"].get(k, 0) + 1
    if typ == "failpt" and ref.exc is None:
        for c2 in campaign.failpoint_cfgs(cfg, ref, max_lagrange=(25 if cfg.get("_variant", "").startswith("long-growing") else 7), max_ratio=7):
            r2 = one_run(c2, res, "%s %d of %d" % (c2["_derived"]["kind"], c2["_derived"]["j"], c2["_derived"]["of"]))
            nder += 1
            k = "derived|" + c2["_derived"]["kind"]
            res["stats"][k] = res["stats"].get(k, 0) + 1
    if case["i"] % 60 == 0:
        s = ref.soln
        res["sample"] = dict(case=case["i"], type=typ, prob=cfg["prob"], args=cfg["args"], user_params=cfg["user_params"],
                             proj=cfg.get("proj"), derived_runs=nder, calls=len(ref.ctx.calls), obj=getattr(s, "obj", None),
                             msg=getattr(s, "msg", None))
    return res


def finalize(agg):
    st = agg["stats"]
    reasons = []
    sites = {k[13:]: v for k, v in st.items() if k.startswith("abandon_exit|")}
    if len(sites) < 4:
        reasons.append("runs ended while holding an un-installed point at only %d distinct exit sites" % len(sites))
    if st.get("iter_hooks", 0) < 1000:
        reasons.append("per-iteration hook fired only %d times" % st.get("iter_hooks", 0))
    nexc = sum(v for k, v in st.items() if k.startswith("exc|"))
    if nexc > 0.05 * st.get("runs", 1):
        reasons.append("%d of %d runs raised" % (nexc, st.get("runs", 0)))
    tr = sum(v for k, v in st.items() if k.startswith("exit|") and ("model increase" in k or "multiple constraints" in k))
    cov = dict(evaluations=int(st.get("runs", 0)), objfun_calls=int(st.get("objfun_calls", 0)), final_checks=int(st.get("final_checks", 0)),
               iteration_hooks=int(st.get("iter_hooks", 0)), exits_holding_uninstalled_point=sites,
               trust_region_increase_exit_records=int(tr),
               restarts_seen=dict(soft=int(st.get("soft_restarts", 0)), hard=int(st.get("hard_restarts", 0))),
               option_keys_exercised=sorted(k[4:] for k in st if k.startswith("opt|")))
    return cov, reasons

"""C14 - the initial interpolation set is feasible and well poised next to bounds; direction generators respect box and length."""
import itertools
import numpy as np
from .. import engine, gen, oracles, contracts
from ..oracles import V

ID = "C14"
NUM = 14
LEVEL = "exploration"
RULE = ("Part A (solver level, maxfun = npt, abs_tol = 0 so exactly the initial set is evaluated): ENUMERATED for n <= 2 (quick) / n <= 3 "
        "(thorough) - every placement pattern of x0 per coordinate in {interior, at lower, at upper, hair above lower, hair below upper, "
        "below lower, above upper} (7^n) x npt in [n+1, 2n+1] x gap in {exactly 2*rhobeg, wide}; sampled for n <= 8 incl. the 1%-of-radius "
        "switching threshold +-1e-3 and one-sided bounds. Oracle: first call == clip(x0) bit-exactly, every point inside the bounds exactly, "
        "distance to x0 within [0.01, 2]*rhobeg*(1+-1e-9), [1 | (X-x0)/rhobeg] of full rank n+1 with condition number < 1e4. Part B: both "
        "random direction generators driven directly on all active-set patterns {free, lower active, upper active}^n for n <= 4 x delta in "
        "{0.1, 1, 2.5, tiny} x requested counts, sampled beyond, and in situ in solver runs: shape, exact box membership, length <= "
        "delta(1+1e-12). Non-trivial = placement with >= 1 coordinate not interior / generator call with >= 1 active "
        "bound; distinct by pattern"
        " Second session: random objectives (the start-up's value-dependent ordering); npt from 2n+2 to the coordinate limit (beyond the stated domain); init.run_in_parallel requested without random directions (refused before any evaluation, or the documented set).")
ASSUMPTIONS = ["finding D20: the orthogonal generator deliberately emits 'extra directions for active constraints' of length up to 2*delta "
               "(one non-zero component at an actively bounded coordinate, row index >= n + #inactive)"]
NSAMP = {"quick": 1600, "thorough": 30000}
NGEN = {"quick": 3000, "thorough": 60000}
NSITU = {"quick": 60, "thorough": 800}
ENUM_N = {"quick": 3, "thorough": 4}
BATCH = 100
CASE_TIMEOUT = {"quick": 200, "thorough": 600}
NSAMPLES = 5
PLACEMENTS = ["interior", "at_lower", "at_upper", "hair_above_lower", "hair_below_upper", "below_lower", "above_upper"]


def EXHAUSTIVE(tier):
    return True


def enum_cases(nmax):
    out = []
    for n in range(1, nmax + 1):
        for pat in itertools.product(range(7), repeat=n):
            for npt in range(n + 1, 2 * n + 2):
                for tight in (0, 1):
                    out.append((n, pat, npt, tight))
    return out


def cases(tier, seed):
    out = []
    en = enum_cases(ENUM_N[tier])
    i = 0
    for b in range(0, len(en), BATCH):
        out.append(dict(i=i, seed=seed, type="enum", start=b, count=min(BATCH, len(en) - b), enum_n=ENUM_N[tier])); i += 1
    for b in range(NSAMP[tier] // BATCH):
        out.append(dict(i=i, seed=seed, type="sampled", start=b * BATCH, count=BATCH)); i += 1
    for b in range(NSAMP[tier] // BATCH // 2):
        out.append(dict(i=i, seed=seed, type="sampled", start=(1000 + b) * BATCH, count=BATCH, wide=True)); i += 1
    out.append(dict(i=i, seed=seed, type="gen_enum")); i += 1
    for b in range(NGEN[tier] // 500):
        out.append(dict(i=i, seed=seed, type="gen", start=b * 500, count=500)); i += 1
    for j in range(NSITU[tier]):
        out.append(dict(i=i, seed=seed, type="insitu")); i += 1
    return out


def setup():
    engine.install_core_monitors()
    engine.install_log_tap()


def place(kind, lo, hi, rhobeg, rng=None, hair=None):
    h = hair if hair is not None else 1e-3 * rhobeg
    if kind == 0:
        return 0.5 * (lo + hi) if rng is None else lo + (hi - lo) * (0.3 + 0.4 * rng.random())
    if kind == 1:
        return lo
    if kind == 2:
        return hi
    if kind == 3:
        return lo + h
    if kind == 4:
        return hi - h
    if kind == 5:
        return lo - 0.7 * rhobeg
    return hi + 0.7 * rhobeg


def check_initial_set(X, x0_arg, lo, hi, rhobeg, npt, tag, viol, st):
    n = len(lo)
    st["initial_sets_checked"] = st.get("initial_sets_checked", 0) + 1

    def add(kind, msg, **w):
        if len(viol) < 8:
            viol.append(V(kind, "%s: %s" % (tag, msg), X=X, x0=x0_arg, lower=lo, upper=hi, rhobeg=rhobeg, npt=npt, **w))
    if len(X) != npt:
        add("initial-set-size", "%d evaluations with maxfun = npt = %d" % (len(X), npt))
        return
    x0p = np.minimum(np.maximum(x0_arg, lo), hi)
    if not np.array_equal(X[0], x0p):
        add("first-point-not-projected-x0", "first evaluation %s != clip(x0) %s" % (X[0].tolist(), x0p.tolist()))
    if np.any(X < lo) or np.any(X > hi):
        k = int(np.argmax(np.any((X < lo) | (X > hi), axis=1)))
        add("initial-point-outside-bounds", "evaluation %d = %s outside the bounds" % (k + 1, X[k].tolist()))
    D = X[1:] - X[0]
    dist = np.linalg.norm(D, axis=1)
    if np.any(dist < 0.01 * rhobeg * (1 - 1e-9)) or np.any(dist > 2 * rhobeg * (1 + 1e-9)):
        k = int(np.argmax((dist < 0.01 * rhobeg * (1 - 1e-9)) | (dist > 2 * rhobeg * (1 + 1e-9))))
        add("initial-point-distance", "evaluation %d is at distance %.6g*rhobeg from x0 (allowed [0.01, 2])" % (k + 2, dist[k] / rhobeg), k=k + 2)
    W = np.hstack([np.ones((npt, 1)), (X - X[0]) / rhobeg])
    sv = np.linalg.svd(W, compute_uv=False)
    rank = int(np.sum(sv > 1e-10 * sv[0]))
    cond = float(sv[0] / sv[-1]) if sv[-1] > 0 else np.inf
    cb = "cond<1e%d" % int(np.ceil(np.log10(max(min(cond, 1e12), 1.0)) + 1e-12))
    st[cb] = st.get(cb, 0) + 1
    if rank < n + 1 or not cond < 1e4:
        add("initial-set-not-poised", "scaled interpolation matrix has rank %d (need %d) and condition number %.3g (need < 1e4)" % (rank, n + 1, cond),
            cond=cond)


def random_objective(rng, n, x0, rhobeg):
    """Residuals whose values along each coordinate rise or fall at random over the scale of the initial set (the order in which
    the start-up stores its +/- steps, and from it the position of the points beyond 2n+1, depends on the values); never small."""
    c = np.asarray(x0, dtype=float) + rhobeg * rng.normal(size=n) * 3.0
    w = rng.normal(size=n) * 10.0 ** rng.uniform(-1, 1, size=n)
    q = rng.normal(size=n)
    return lambda x: np.concatenate([w * (x - c) / rhobeg, [3.0 + float(np.sum(q * ((x - c) / rhobeg) ** 2))]])


def run_one_init(n, lo, hi, x0, rhobeg, npt, tag, res, objfun=None, extra_params=None, may_reject=False):
    st = res["stats"]
    f = objfun or (lambda x: np.concatenate([x - 0.3, [np.sum(x ** 2) + 1.0]]))     # never small: no early exit
    up = {"model.abs_tol": 0.0, "model.rel_tol": 0.0}
    up.update(extra_params or {})
    kw = dict(bounds=(lo.copy(), hi.copy()), npt=npt, rhobeg=rhobeg, rhoend=rhobeg * 1e-6, maxfun=npt, user_params=up)
    run = engine.run_solve(f, x0.copy(), timeout=30, solve_kwargs=kw)
    st["runs"] = st.get("runs", 0) + 1
    if run.exc is not None:
        res["viol"].append(V("exception", "%s: solve raised %r" % (tag, run.exc), x0=x0, lower=lo, upper=hi, rhobeg=rhobeg, npt=npt))
        return
    if may_reject and run.soln.flag == run.soln.EXIT_INPUT_ERROR and len(run.ctx.calls) == 0:
        # an option the default (coordinate) initialisation does not support may be refused before any evaluation - but if the call
        # is accepted while random directions were NOT asked for, the set it evaluates is the one the property describes
        st["refused_before_any_evaluation"] = st.get("refused_before_any_evaluation", 0) + 1
        return
    if run.soln.flag == run.soln.EXIT_INPUT_ERROR:
        res["viol"].append(V("input-error", "%s: valid geometry rejected: %s" % (tag, run.soln.msg), x0=x0, lower=lo, upper=hi, rhobeg=rhobeg))
        return
    X = np.array([c["x"] for c in run.ctx.calls])
    st["objfun_calls"] = st.get("objfun_calls", 0) + len(X)
    check_initial_set(X, x0, np.where(lo <= -1e20, -np.inf, lo), np.where(hi >= 1e20, np.inf, hi), rhobeg, npt, tag, res["viol"], st)


def run_enum(case, res):
    allc = enum_cases(case["enum_n"])
    rhobeg = 0.1
    for (n, pat, npt, tight) in allc[case["start"]:case["start"] + case["count"]]:
        base = np.array([0.3, -1.7, 12.5, -0.04, 250.0])[:n]
        gap = np.full(n, 2 * rhobeg if tight else 1.7)
        lo = base.copy()
        hi = lo + gap
        if tight:
            # make sure the gap as computed by solve (xu - xl) is not below 2*rhobeg by rounding
            hi = np.where(hi - lo < 2 * rhobeg, np.nextafter(hi, np.inf), hi)
        x0 = np.array([place(k, lo[j], hi[j], rhobeg) for j, k in enumerate(pat)])
        tag = "enumerated n=%d placement=%s npt=%d gap=%s" % (n, [PLACEMENTS[k] for k in pat], npt, "2*rhobeg" if tight else "wide")
        run_one_init(n, lo, hi, x0, rhobeg, npt, tag, res)
        res["stats"]["enumerated_placements"] = res["stats"].get("enumerated_placements", 0) + 1
        if any(k != 0 for k in pat):
            res["nontrivial"].append("e|%d|%s|%d|%d" % (n, "".join(map(str, pat)), npt, tight))
    res["sample"] = dict(kind="enumerated", first=list(map(lambda t: (t[0], [PLACEMENTS[k] for k in t[1]], t[2], t[3]), allc[case["start"]:case["start"] + 2])))


def run_sampled(case, res):
    for k in range(case["start"], case["start"] + case["count"]):
        rng = engine.rng_for(case["seed"], NUM, k)
        n = int(rng.integers(1, 9))
        rhobeg = float(10.0 ** rng.uniform(-3, 1))
        off = float(10.0 ** rng.integers(-1, 4)) if rng.random() < 0.3 else 1.0
        lo = rng.normal(size=n) * off
        gap = rhobeg * np.where(rng.random(n) < 0.3, 2.0, 2.0 + 10.0 ** rng.uniform(-2, 2, size=n))
        hi = lo + gap
        hi = np.where(hi - lo < 2 * rhobeg, lo + 2 * rhobeg * (1 + 4e-16) + 4 * np.spacing(np.abs(lo) + 2 * rhobeg), hi)
        pat = rng.integers(0, 7, size=n)
        x0 = np.empty(n)
        for j in range(n):
            u = rng.random()
            hair = rhobeg * float(gen.pick(rng, [1e-3, 0.01 * (1 - 1e-3), 0.01 * (1 + 1e-3), 1e-8, 0.5, 0.999]))
            x0[j] = place(int(pat[j]), lo[j], hi[j], rhobeg, rng, hair=min(hair, 0.5 * (hi[j] - lo[j])))
            if pat[j] == 1 and u < 0.2:
                x0[j] = np.nextafter(lo[j], np.inf)
            if pat[j] == 2 and u < 0.2:
                x0[j] = np.nextafter(hi[j], -np.inf)
        lo_a, hi_a = lo.copy(), hi.copy()
        for j in range(n):
            u = rng.random()
            if u < 0.1:
                lo_a[j] = -1e20
            elif u < 0.2:
                hi_a[j] = 1e20
        npt = int(rng.integers(n + 1, 2 * n + 2))
        g2 = engine.rng_for(case["seed"], NUM, k, 5)      # own stream: the geometry above stays what it was
        f = random_objective(g2, n, np.minimum(np.maximum(x0, lo), hi), rhobeg) if g2.random() < 0.5 else None
        extra, rej, tag2 = None, False, ""
        if g2.random() < 0.12:
            # batch evaluation of the initial set requested WITHOUT random directions: refused, or the documented coordinate set
            extra, rej, tag2 = {"init.run_in_parallel": True}, True, ", init.run_in_parallel"
        if case.get("wide"):
            # beyond the stated domain (npt <= 2n+1): up to the limit of the coordinate scheme, where the points past 2n+1 combine two
            # coordinate steps chosen by the objective values seen so far
            n_hi = (n + 1) * (n + 2) // 2
            if n_hi > 2 * n + 1:
                npt = int(g2.integers(2 * n + 2, n_hi + 1))
                f = random_objective(g2, n, np.minimum(np.maximum(x0, lo), hi), rhobeg)
                res["stats"]["initial_sets_npt_above_2n+1"] = res["stats"].get("initial_sets_npt_above_2n+1", 0) + 1
        run_one_init(n, lo_a, hi_a, x0, rhobeg, npt, "sampled %d (n=%d, npt=%d%s)" % (k, n, npt, tag2), res, objfun=f, extra_params=extra, may_reject=rej)
        if np.any(pat != 0):
            res["nontrivial"].append("s%d" % k)
        if k % 400 == 0:
            res["sample"] = dict(kind="sampled", index=k, n=n, npt=npt, rhobeg=rhobeg, placement=[PLACEMENTS[int(p)] for p in pat],
                                 x0_minus_lower_over_rhobeg=((x0 - lo) / rhobeg).tolist(), upper_minus_x0_over_rhobeg=((hi - x0) / rhobeg).tolist())


# ---------------------------------------------------------------------------
# Part B: direction generators
# ---------------------------------------------------------------------------
def check_dirs(name, dirs, num_pts, delta, lower, upper, tag, viol, st, with_neg=True):
    n = len(lower)
    st["generator_calls|" + name] = st.get("generator_calls|" + name, 0) + 1
    contracts.COUNTS["gen." + name] += 1

    def add(kind, msg, known=None, **w):
        if len(viol) < 8:
            viol.append(V(kind, "%s %s: %s" % (name, tag, msg), known=known, delta=delta, lower=lower, upper=upper, num_pts=num_pts, **w))
    dirs = np.asarray(dirs)
    if dirs.shape != (num_pts, n):
        add("generator-shape", "returned shape %s, requested (%d, %d)" % (dirs.shape, num_pts, n))
        return
    if np.any(dirs < lower) or np.any(dirs > upper):
        add("generator-outside-box", "a direction leaves [lower, upper] by %.3g" % float(max(np.max(lower - dirs), np.max(dirs - upper))), dirs=dirs)
    ln = np.linalg.norm(dirs, axis=1)
    if np.any(ln == 0):
        # observation only: the property promises the count, the box and the length, not a minimum length (with x0 one
        # denormal above a bound the admissible step in that coordinate is 5e-324 and the norm underflows to 0)
        st["observation|zero-length-direction"] = st.get("observation|zero-length-direction", 0) + 1
    active = (lower >= -1e-15 * delta) | (upper <= 1e-15 * delta)     # 'active' as the generators define it (bound within rounding level)
    ninact = int(n - np.sum(active))
    for k in np.where(ln > delta * (1 + 1e-12))[0]:
        nz = np.nonzero(dirs[k])[0]
        is_d20 = (name == "random_orthog_directions_within_bounds" and with_neg and len(nz) == 1 and bool(active[nz[0]])
                  and k >= n + ninact and k < 2 * n and ln[k] <= 2 * delta * (1 + 1e-12))
        add("generator-too-long", "direction %d has length %.6g*delta%s" % (int(k), ln[k] / delta, " (extra direction for an active constraint)" if is_d20 else ""),
            known=("orthog-extra-directions-2delta" if is_d20 else None), k=int(k), direction=dirs[k])
        break


def gen_inputs(rng):
    n = int(rng.integers(1, 8))
    delta = float(gen.pick(rng, [0.1, 1.0, 2.5, 10.0 ** rng.uniform(-6, 1)]))
    lower = -np.abs(rng.normal(size=n)) * 10.0 ** rng.uniform(-2, 1, size=n) * delta
    upper = np.abs(rng.normal(size=n)) * 10.0 ** rng.uniform(-2, 1, size=n) * delta
    nact = 0
    for j in range(n):
        u = rng.random()
        if u < 0.2:
            lower[j] = 0.0; nact += 1
        elif u < 0.4:
            upper[j] = 0.0; nact += 1
        elif u < 0.5:
            lower[j] = -1e20; upper[j] = 1e20
    num = int(gen.pick(rng, [1, max(1, n - 1), n, n + 1, 2 * n, 2 * n + 1, 3 * n]))
    return n, delta, lower, upper, num, nact


def drive_generators(n, delta, lower, upper, num, tag, res, rng_seed):
    import dfols.util as du
    orth = engine.ORIGINALS.get("random_orthog_directions_within_bounds") or du.random_orthog_directions_within_bounds
    rnd = engine.ORIGINALS.get("random_directions_within_bounds") or du.random_directions_within_bounds
    st = res["stats"]
    np.random.seed(rng_seed % (2 ** 31))
    for name, f in (("random_orthog_directions_within_bounds", orth), ("random_directions_within_bounds", rnd)):
        l0, u0 = lower.copy(), upper.copy()
        try:
            d = f(num, delta, lower, upper)
        except Exception as e:
            res["viol"].append(V("exception", "%s %s raised %r" % (name, tag, e), delta=delta, lower=lower, upper=upper, num_pts=num))
            continue
        if not (np.array_equal(l0, lower) and np.array_equal(u0, upper)):
            res["viol"].append(V("generator-mutated-arguments", "%s %s modified its bound arrays" % (name, tag)))
        check_dirs(name, d, num, delta, lower, upper, tag, res["viol"], st)
    # the orthogonal generator's second mode (public keyword, not used by the solver itself): n coordinate-like directions, no negatives
    try:
        d = orth(num, delta, lower, upper, with_neg_dirns=False)
        check_dirs("random_orthog_directions_within_bounds", d, num, delta, lower, upper, tag + " with_neg_dirns=False", res["viol"], st, with_neg=False)
    except Exception as e:
        res["viol"].append(V("exception", "random_orthog_directions_within_bounds(with_neg_dirns=False) %s raised %r" % (tag, e),
                             delta=delta, lower=lower, upper=upper, num_pts=num))


def run_gen_enum(case, res):
    # all active-set patterns {free, lower active, upper active}^n for n <= 4
    cnt = 0
    for n in range(1, 5):
        for pat in itertools.product(range(3), repeat=n):
            for delta in (0.1, 1.0, 2.5, 1e-5):
                lower = np.array([0.0 if p == 1 else -3.0 * delta * (1 + 0.1 * j) for j, p in enumerate(pat)])
                upper = np.array([0.0 if p == 2 else 2.0 * delta * (1 + 0.2 * j) for j, p in enumerate(pat)])
                for num in (1, n, n + 1, 2 * n, 2 * n + 2):
                    drive_generators(n, delta, lower, upper, num, "pattern %s delta=%g num=%d" % (pat, delta, num), res, cnt)
                    cnt += 1
                    if any(pat):
                        res["nontrivial"].append("G|%s|%g|%d" % ("".join(map(str, pat)), delta, num))
    res["stats"]["generator_patterns_enumerated"] = cnt
    res["sample"] = dict(kind="generator-enumeration", patterns=cnt)


def run_gen(case, res):
    for k in range(case["start"], case["start"] + case["count"]):
        rng = engine.rng_for(case["seed"], NUM, k, 1)
        n, delta, lower, upper, num, nact = gen_inputs(rng)
        drive_generators(n, delta, lower, upper, num, "input %d" % k, res, int(rng.integers(0, 2 ** 31)))
        if nact:
            res["nontrivial"].append("g%d" % k)


def install_gen_insitu():
    if "gen" in engine._INSTALLED:
        return
    engine._INSTALLED.add("gen")
    import dfols.util as du
    for name in ("random_orthog_directions_within_bounds", "random_directions_within_bounds"):
        def mk(orig, name=name):
            def w(num_pts, delta, lower, upper, *a, **k):
                out = orig(num_pts, delta, lower, upper, *a, **k)
                c = engine.CTX
                if c is not None and c.extra.get("gen_res") is not None:
                    with_neg = k.get("with_neg_dirns", a[0] if a else True)
                    check_dirs(name, out, num_pts, delta, np.array(lower), np.array(upper), "in situ", c.extra["gen_res"]["viol"],
                               c.extra["gen_res"]["stats"], with_neg=with_neg)
                    c.extra["gen_res"]["stats"]["insitu_generator_calls"] = c.extra["gen_res"]["stats"].get("insitu_generator_calls", 0) + 1
                return out
            return w
        engine.BINDINGS[name] = engine.instrument_function(name, mk, home=du)


def run_insitu(case, res):
    install_gen_insitu()
    rng = engine.rng_for(case["seed"], NUM, case["i"], 2)
    spec = gen.gen_problem(rng, kinds=("linear", "sinlin", "rosen", "target"), nmax=5, mmax=6)
    n = spec["n"]
    box = gen.gen_box(rng, n, scaling_p=0.3, place_p=0.6)
    if spec["kind"] == "target":
        lo = gen.arr(box["lower"], n, -10.0); hi = gen.arr(box["upper"], n, 10.0)
        spec.update(m=n, t=(lo + (hi - lo) * rng.uniform(-0.5, 1.5, size=n)).tolist(), w=np.ones(n).tolist(), couple=None, trap=False)
    cfg = dict(prob=spec, x0=box["x0"], lower=box["lower"], upper=box["upper"],
               args=dict(rhobeg=box["rhobeg"], rhoend=box["rhobeg"] * 1e-3, maxfun=60), user_params={})
    if box["scaling"]:
        cfg["args"]["scaling_within_bounds"] = True
    up = cfg["user_params"]
    mode = case["i"] % 4
    if mode == 0:
        up["init.random_initial_directions"] = True
        up["init.random_directions_make_orthogonal"] = bool(rng.random() < 0.7)
        if rng.random() < 0.5:
            cfg["args"]["npt"] = int(rng.integers(n + 1, 2 * n + 2))
    elif mode == 1 and n > 1:
        up["growing.ndirs_initial"] = int(rng.integers(1, n))
        up["growing.num_new_dirns_each_iter"] = 1
    elif mode == 2:
        cfg["args"]["npt"] = int(rng.integers(n + 2, 2 * n + 2)) if n > 0 else 2
        up["regression.num_extra_steps"] = 1
        up["regression.momentum_extra_steps"] = True
    else:
        cap = (n + 1) * (n + 2) // 2
        up.update({"restarts.use_restarts": True, "restarts.increase_npt": True, "restarts.max_npt": int(min(n + 3, cap))})
        if up["restarts.max_npt"] <= n + 1:
            up.pop("restarts.increase_npt"); up.pop("restarts.max_npt")
        cfg["args"]["rhoend"] = box["rhobeg"] * 0.05
    case["cfg"] = cfg
    ctx = engine.Ctx()
    ctx.extra["gen_res"] = res
    run = gen.run_cfg(cfg, ctx=ctx, timeout=60)
    oracles.common_stats(run, res["stats"])
    if res["stats"].get("insitu_generator_calls"):
        res["nontrivial"].append("i" + oracles.cfg_hash(cfg))


def run_case(case):
    res = dict(stats={}, viol=[], nontrivial=[], inconclusive=[])
    t = case["type"]
    if t == "enum":
        run_enum(case, res)
    elif t == "sampled":
        run_sampled(case, res)
    elif t == "gen_enum":
        run_gen_enum(case, res)
    elif t == "gen":
        run_gen(case, res)
    else:
        run_insitu(case, res)
    return res




def finalize(agg):
    st = agg["stats"]
    reasons = []
    want = len(enum_cases(ENUM_N[agg["tier"]]))
    if st.get("enumerated_placements", 0) != want:
        reasons.append("enumeration incomplete: %d of %d placements" % (st.get("enumerated_placements", 0), want))
    if st.get("generator_calls|random_orthog_directions_within_bounds", 0) < 1000:
        reasons.append("orthogonal generator driven only %d times" % st.get("generator_calls|random_orthog_directions_within_bounds", 0))
    if st.get("insitu_generator_calls", 0) < 20:
        reasons.append("generators observed in situ only %d times" % st.get("insitu_generator_calls", 0))
    cov = dict(evaluations=int(st.get("initial_sets_checked", 0) + sum(v for k, v in st.items() if k.startswith("generator_calls|"))),
               exhaustive=True, exhaustive_scope="Part A placements for n <= %d (%d runs) and generator active-set patterns for n <= 4" % (ENUM_N[agg["tier"]], want),
               enumerated_placements=int(st.get("enumerated_placements", 0)), initial_sets_checked=int(st.get("initial_sets_checked", 0)),
               condition_number_histogram={k: int(v) for k, v in st.items() if k.startswith("cond<")},
               generator_calls={k.split("|")[1]: int(v) for k, v in st.items() if k.startswith("generator_calls|")},
               generator_patterns_enumerated=int(st.get("generator_patterns_enumerated", 0)),
               generator_calls_in_situ=int(st.get("insitu_generator_calls", 0)),
               observation_zero_length_directions=int(st.get("observation|zero-length-direction", 0)))
    return cov, reasons

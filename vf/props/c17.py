"""C17 - model bookkeeping stays consistent under any sequence of updates (shadow model + in-situ slot invariants)."""
import numpy as np
from .. import engine, gen, oracles, campaign
from ..oracles import V

ID = "C17"
NUM = 17
LEVEL = "exploration"
RULE = ("random operation sequences (5..50 operations from {replace, grow, resample, append, swap, shift, save, query}) on the real Model, "
        "n <= 4, m <= 3, npt in [n+1, 2n+1], data with ties by rounding, NaN, +-inf, with and without a regulariser; after EVERY operation "
        "the Model is compared slot by slot with a shadow model kept by the harness (absolute position, mean of the samples, objective = "
        "sum(mean^2)+h, sample count, evaluation number), the incumbent must be a minimiser of the stored objectives unless it was itself "
        "overwritten by a worse value (stale bit), and get_final_results must return the better of saved point and incumbent (finite over "
        "NaN, ties to the incumbent). The per-slot relations also run in situ at every iteration of solver runs with the recorder as "
        "ground truth. Non-trivial = sequence reaching >= 4 distinct operation kinds; distinct by sequence index; evidence counts "
        "operation bigrams and abstract states (growing/full x stale x saved x NaN-present)"
        ' Second session: regulariser with extra arguments (argsh) and models in scaled variables (scaling_changes) in the sequences.')
ASSUMPTIONS = ["'unless the incumbent itself was overwritten by a worse point' is read as weakly as the code legitimately needs after a soft "
               "restart: the stale bit is set when an operation writes a worse value (or NaN) into the incumbent's own slot and cleared when "
               "the incumbent is again a minimiser"]
NSEQ = {"quick": 4000, "thorough": 120000}
NSITU = {"quick": 260, "thorough": 4000}
BATCH = 100
CASE_TIMEOUT = {"quick": 200, "thorough": 600}
NSAMPLES = 4
OPS = ["replace", "grow", "resample", "append", "swap", "shift", "save", "query"]


def cases(tier, seed):
    nb = NSEQ[tier] // BATCH
    out = [dict(i=b, seed=seed, type="seq", start=b * BATCH, count=BATCH) for b in range(nb)]
    out += [dict(i=nb + j, seed=seed, type="insitu") for j in range(NSITU[tier])]
    return out


def setup():
    engine.install_core_monitors()
    engine.install_log_tap()


def ssq(r):
    with np.errstate(all="ignore"):
        return float(np.dot(r, r))


def better(a, b):
    """a strictly better than b, NaN worst"""
    if np.isnan(a):
        return False
    if np.isnan(b):
        return True
    return a < b


def run_sequence(seed, k, res):
    from dfols.model import Model
    st = res["stats"]
    rng = engine.rng_for(seed, NUM, k)
    n = int(rng.integers(1, 5))
    m = int(rng.integers(1, 4))
    npt = int(rng.integers(n + 1, 2 * n + 2))
    useh = rng.random() < 0.4
    lam = 0.5
    # own stream for the two variations below (the sequences themselves stay what they were): the regulariser takes extra arguments
    # (argsh), and / or the model lives in scaled variables (scaling_changes) while h is a function of the user's variables
    g2 = engine.rng_for(seed, NUM, k, 6)
    argsh = ()
    scaling = None
    if useh and g2.random() < 0.5:
        argsh = (float(g2.uniform(0.5, 3.0)), ("token", 3))
    if useh and g2.random() < 0.4:
        scaling = (g2.normal(size=n) * 3.0, 10.0 ** g2.uniform(-1, 1, size=n))

    def h_model(x, *a):
        # what the Model is given: requires exactly the extra arguments it was constructed with
        if tuple(a) != tuple(argsh):
            raise AssertionError("h received extra arguments %r instead of %r" % (a, argsh))
        return (a[0] if a else 1.0) * lam * float(np.abs(x).sum())

    def h(x):
        # the shadow's h of a stored (model-coordinate) position
        xu_ = x if scaling is None else scaling[0] + x * scaling[1]
        return (argsh[0] if argsh else 1.0) * lam * float(np.abs(xu_).sum())
    if useh:
        st["sequences_with_argsh"] = st.get("sequences_with_argsh", 0) + int(bool(argsh))
        st["sequences_with_scaling"] = st.get("sequences_with_scaling", 0) + int(scaling is not None)
    pbad = float(gen.pick(rng, [0.0, 0.05, 0.15, 0.4]))

    def rv():
        r = np.round(rng.normal(size=m), 1) if rng.random() < 0.3 else rng.normal(size=m)
        u = rng.random()
        if u < pbad * 0.5:
            r[rng.integers(m)] = np.nan
        elif u < pbad * 0.8:
            r[rng.integers(m)] = np.inf
        elif u < pbad:
            r[rng.integers(m)] = -np.inf
        return r
    x0 = rng.normal(size=n) * 5
    r0 = rng.normal(size=m)
    xl, xu = -1e20 * np.ones(n), 1e20 * np.ones(n)
    M = Model(npt, x0.copy(), r0.copy(), xl, xu, [], 1, h=(h_model if useh else None), argsh=argsh, do_logging=False, scaling_changes=scaling)
    sh = [dict(x=x0.copy(), samples=[r0.copy()], ev=1)]
    stale = False
    saved = None
    ops = []

    def objof(s):
        with np.errstate(all="ignore"):
            mean = s["samples"][0] if len(s["samples"]) == 1 else np.mean(np.array(s["samples"]), axis=0)
        o = ssq(mean)
        if useh:
            o += h(s["x"])
        return o, mean
    kinds = set()
    prev = None
    nops = int(rng.integers(5, 51))
    for step in range(nops):
        cur = M.npt()
        u = rng.random()
        op = None
        try:
            if cur < M.num_pts and u < 0.5:
                x = rng.normal(size=n); r = rv(); ev = 100 + step
                M.change_point(cur, x, r, ev)
                sh.append(dict(x=M.xbase + x, samples=[r.copy()], ev=ev)); op = ("grow", cur)
            elif u < 0.35:
                kk = int(rng.integers(cur)); x = rng.normal(size=n); r = rv(); ev = 100 + step
                oldk = M.kopt; oldo = objof(sh[oldk])[0]
                M.change_point(kk, x, r, ev)
                sh[kk] = dict(x=M.xbase + x, samples=[r.copy()], ev=ev); op = ("replace", kk)
                if kk == oldk and not (objof(sh[kk])[0] <= oldo):
                    stale = True
            elif u < 0.55:
                kk = int(rng.integers(cur)); r = rv()
                oldk = M.kopt; oldo = objof(sh[oldk])[0]
                M.add_new_sample(kk, r)
                sh[kk]["samples"].append(r.copy()); op = ("resample", kk)
                if kk == oldk and not (objof(sh[kk])[0] <= oldo):
                    stale = True
            elif u < 0.65 and cur >= M.num_pts:
                x = rng.normal(size=n); r = rv(); ev = 100 + step
                M.add_new_point(x, r, ev)
                sh.append(dict(x=M.xbase + x, samples=[r.copy()], ev=ev)); op = ("append",)
            elif u < 0.75 and cur >= 2:
                k1, k2 = [int(v) for v in rng.choice(cur, 2, replace=False)]
                M.swap_points(k1, k2)
                sh[k1], sh[k2] = sh[k2], sh[k1]; op = ("swap", k1, k2)
            elif u < 0.85:
                s = rng.normal(size=n) * 10.0 ** rng.integers(-2, 2)
                M.shift_base(s); op = ("shift",)
            elif u < 0.88:
                # save the incumbent exactly as Controller.soft_restart does: the residual argument is a VIEW of the model's own row
                x = M.xopt(abs_coordinates=True); rview = M.ropt(); ns = int(M.nsamples[M.kopt]); ev = int(M.eval_num[M.kopt])
                r = np.array(rview, copy=True)
                M.save_point(x, rview, ns, ev, x_in_abs_coords=True); op = ("save",)
                o = ssq(r) + (h(x) if useh else 0)
                if saved is None or better(o, saved["o"]) or (o == saved["o"]) or (np.isnan(saved["o"]) and np.isnan(o)):
                    saved = dict(x=x.copy(), r=r.copy(), o=o, ns=ns, ev=ev)
            elif u < 0.95:
                x = rng.normal(size=n); r = rv(); ns = int(rng.integers(1, 4)); ev = 500 + step
                M.save_point(x, r, ns, ev, x_in_abs_coords=True); op = ("save",)
                o = ssq(r) + (h(x) if useh else 0)
                if saved is None or better(o, saved["o"]) or (o == saved["o"]) or (np.isnan(saved["o"]) and np.isnan(o)):
                    saved = dict(x=x.copy(), r=r.copy(), o=o, ns=ns, ev=ev)
            else:
                op = ("query",)
        except Exception as e:
            res["viol"].append(V("exception", "sequence %d step %d: %s raised %r" % (k, step, op or "operation", e), ops=ops[-8:]))
            return
        ops.append(op)
        kinds.add(op[0])
        if prev is not None:
            st["bigram|%s>%s" % (prev, op[0])] = 1
        prev = op[0]
        st["operations"] = st.get("operations", 0) + 1
        # ---- compare with the shadow
        cur = M.npt()
        why = None
        objs = []
        for j in range(cur):
            o, mean = objof(sh[j])
            objs.append(o)
            xa = M.xpt(j, abs_coordinates=True)
            with np.errstate(all="ignore"):
                if not np.allclose(xa, sh[j]["x"], rtol=1e-12, atol=1e-12 * (1 + float(np.abs(M.xbase).max()))):
                    why = "slot %d: absolute position moved by %.3g" % (j, float(np.max(np.abs(xa - sh[j]["x"]))))
                elif not np.allclose(M.fval_v[j], mean, rtol=1e-12, atol=1e-14, equal_nan=True):
                    why = "slot %d: stored residual is not the mean of its %d samples" % (j, len(sh[j]["samples"]))
                elif not np.isclose(M.objval[j], o, rtol=1e-12, equal_nan=True):
                    why = "slot %d: stored objective %r != sum(mean^2)+h = %r" % (j, float(M.objval[j]), o)
                elif M.nsamples[j] != len(sh[j]["samples"]):
                    why = "slot %d: sample count is %d, but exactly %d samples were taken" % (j, M.nsamples[j], len(sh[j]["samples"]))
                elif M.eval_num[j] != sh[j]["ev"]:
                    why = "slot %d: evaluation number %d did not travel with its point (expected %d)" % (j, M.eval_num[j], sh[j]["ev"])
            if why:
                break
        # "designates the smallest STORED objective": minimality is judged on the model's own stored values (each of which was just
        # compared with the shadow's recomputation to 1e-12) - judging it on the recomputed values turns a last-bit difference
        # between two summation orders into a spurious 'not the minimum' at a near tie
        if why is None:
            objs = [float(v) for v in M.objval[:cur]]
        fin = [o for o in objs if not np.isnan(o)]
        if why is None:
            if not (0 <= M.kopt < cur):
                why = "incumbent index %r out of range" % (M.kopt,)
            else:
                ko = objs[M.kopt]
                ismin = bool(fin) and (not np.isnan(ko)) and ko == min(fin)
                if ismin:
                    stale = False
                elif fin and not stale:
                    why = "incumbent kopt=%d has objective %r but the smallest stored objective is %r (incumbent not overwritten)" % (M.kopt, ko, min(fin))
        if why is None:
            x, r, o, J, ns, ev, jev = M.get_final_results()
            inc = objs[M.kopt]
            if saved is not None:
                so = saved["o"]
                exp = "saved" if better(so, inc) else ("inc" if (better(inc, so) or inc == so) else "either")
                if np.isfinite(so) and np.isfinite(inc) and abs(so - inc) <= 1e-13 * max(abs(so), abs(inc)):
                    exp = "either"     # a tie up to the last bits of a dot product (summation order depends on memory alignment)
            else:
                exp = "inc"
            def same_rec(o1, r1, ns1, ev1, o2, r2, ns2, ev2):
                return bool((o1 == o2 or (np.isnan(o1) and np.isnan(o2)) or abs(o1 - o2) <= 1e-13 * max(abs(o1), abs(o2))) and np.array_equal(np.asarray(r1), np.asarray(r2), equal_nan=True)
                            and int(ns1) == int(ns2) and int(ev1) == int(ev2))
            is_inc = same_rec(o, r, ns, ev, M.objval[M.kopt], M.fval_v[M.kopt], M.nsamples[M.kopt], M.eval_num[M.kopt])
            is_saved = saved is not None and same_rec(o, r, ns, ev, saved["o"], saved["r"], saved["ns"], saved["ev"])
            if exp == "inc" and not is_inc:
                why = "get_final_results did not return the incumbent record although it is the better one (incumbent %r, saved %r; returned obj %r, eval %r)" % (
                    inc, saved["o"] if saved else None, o, ev)
            elif exp == "saved" and not is_saved:
                why = "get_final_results did not return the saved record (obj %r, eval %d, its own residuals and sample count) although it is the better one " \
                      "(incumbent %r; returned obj %r, eval %r)" % (saved["o"], saved["ev"], inc, o, ev)
            elif exp == "either" and not (is_inc or is_saved):
                why = "get_final_results returned neither the incumbent nor the saved record (returned obj %r, eval %r)" % (o, ev)
            st["final_queries"] = st.get("final_queries", 0) + 1
        state = "%s|%s|%s|%s" % ("full" if cur >= M.num_pts else "growing", "stale" if stale else "fresh", "saved" if saved else "nosave",
                                 "nan" if len(fin) < len(objs) else "finite")
        st["state|" + state] = 1
        if why:
            res["viol"].append(V("bookkeeping", "sequence %d after step %d %s: %s" % (k, step, op, why), ops=ops[-10:], n=n, m=m, npt=npt, h=useh))
            return
    st["sequences"] = st.get("sequences", 0) + 1
    if len(kinds) >= 4:
        res["nontrivial"].append("q%d" % k)
    if k % 1000 == 0:
        res["sample"] = dict(kind="sequence", index=k, n=n, m=m, npt=npt, regulariser=useh, operations=[list(map(str, o)) for o in ops[:25]])


def run_insitu(case, res):
    st = res["stats"]
    rng = engine.rng_for(case["seed"], NUM, case["i"], 2)
    cfg = case.get("cfg") or campaign.gen_cfg(rng, noise_p=0.5, averaging_p=0.6, box_p=0.3, proj_p=0.0, reg_p=0.08, restarts_p=0.5, nmax=4, mmax=6,
                                             maxfuns=(30, 60, 120), term_p=0.1)
    if "cfg" not in case and case["i"] % 8 == 3:
        cfg = campaign.growing_restart_variant(cfg, np.random.default_rng([case["seed"], NUM, case["i"], 9]), nan_fault=bool(case["i"] % 16 == 3))
        st["insitu_growing_restart_variant"] = 1
    case["cfg"] = cfg
    ctx = engine.Ctx()
    built = gen.build(cfg, ctx)
    tab = campaign.PointTable(ctx)
    viol = []
    h = built.h_raw if built.h is not None else None
    scaling = cfg["args"].get("scaling_within_bounds")

    def hook(model):
        if viol:
            return
        for k in range(model.npt()):
            st["insitu_slot_checks"] = st.get("insitu_slot_checks", 0) + 1
            ev = int(model.eval_num[k])
            t = tab.get(ev)
            where = "iteration %d slot %d (evaluation %d)" % (ctx.iters, k, ev)
            if t is None:
                viol.append(V("insitu-slot", "%s: evaluation number names no point of the history" % where))
                return
            if int(model.nsamples[k]) != len(t["rs"]):
                viol.append(V("insitu-slot", "%s: sample count %d but %d samples were taken at that point" % (where, model.nsamples[k], len(t["rs"]))))
                return
            rbar = campaign.PointTable.rbar(t)
            ok = campaign.same(model.fval_v[k], rbar) if len(t["rs"]) == 1 else campaign.same(
                model.fval_v[k], rbar, rtol=1e-12, atol=1e-12 * (1 + float(np.max(np.abs(np.nan_to_num(rbar, posinf=0, neginf=0))))))
            if not ok:
                viol.append(V("insitu-slot", "%s: stored residual is not the %s recorded there" % (where, "vector" if len(t["rs"]) == 1 else "mean of the %d vectors" % len(t["rs"]))))
                return
            want = ssq(model.fval_v[k]) + (float(h(t["x"])) if h is not None else 0.0)
            if not campaign.same(model.objval[k], want, rtol=1e-9, atol=1e-300):
                viol.append(V("insitu-slot", "%s: stored objective %r != sum(r^2)+h = %r" % (where, float(model.objval[k]), want)))
                return
        st["insitu_hooks"] = st.get("insitu_hooks", 0) + 1
    ctx.iter_hook = hook
    run = gen.run_cfg(cfg, ctx, timeout=90, built=built)
    oracles.common_stats(run, st)
    res["viol"].extend(viol)
    if run.timeout:
        res["inconclusive"].append("watchdog")
    if ctx.iters > 0:
        res["nontrivial"].append("s" + oracles.cfg_hash(cfg))
    if case["i"] % 100 == 0:
        res["sample"] = dict(kind="insitu", case=case["i"], prob=cfg["prob"], args=cfg["args"], nsamples=cfg.get("nsamples"),
                             iterations=ctx.iters, calls=len(ctx.calls))


def run_case(case):
    res = dict(stats={}, viol=[], nontrivial=[], inconclusive=[])
    if case["type"] == "seq":
        for k in range(case["start"], case["start"] + case["count"]):
            run_sequence(case["seed"], k, res)
            if len(res["viol"]) >= 5:
                break
    else:
        run_insitu(case, res)
    return res


def finalize(agg):
    st = agg["stats"]
    reasons = []
    bigrams = sorted(k[7:] for k in st if k.startswith("bigram|"))
    states = sorted(k[6:] for k in st if k.startswith("state|"))
    if len(bigrams) < 56:
        reasons.append("only %d of 64 operation bigrams exercised" % len(bigrams))
    if len(states) < 12:
        reasons.append("only %d abstract states reached" % len(states))
    if st.get("insitu_slot_checks", 0) < 5000 and agg["tier"] == "quick":
        reasons.append("in-situ slot relation evaluated only %d times" % st.get("insitu_slot_checks", 0))
    cov = dict(evaluations=int(st.get("sequences", 0) + st.get("runs", 0)), operations=int(st.get("operations", 0)),
               sequences=int(st.get("sequences", 0)), final_queries=int(st.get("final_queries", 0)),
               operation_bigrams_exercised=len(bigrams), operation_bigrams_missing=sorted(set("%s>%s" % (a, b) for a in OPS for b in OPS) - set(bigrams)),
               abstract_states_reached=states, in_situ_slot_checks=int(st.get("insitu_slot_checks", 0)), in_situ_runs=int(st.get("runs", 0)))
    return cov, reasons

"""C18 - trust-region radii and the diagnostic table obey their invariants."""
import re
import os
import numpy as np
from .. import engine, gen, oracles, campaign
from ..oracles import V

ID = "C18"
NUM = 18
LEVEL = "exploration"
RULE = ("runs with logging.save_diagnostic_info over radii (rhobeg/rhoend ratios drawn continuously, not only powers of ten), "
        "tr_radius.alpha1/alpha2/gamma_* strictly inside their ranges, budgets, noise, averaging, regression, growing (with reset_delta/"
        "reset_rho), soft/hard restarts, rhoend_scale in {1,.9,.5,.1}, increase_npt with amounts 1..3, bounds/scaling and a share of "
        "regularised runs. Oracle on every row of soln.diagnostic_info: documented column set (parsed from docs/diagnostic.rst), "
        "iters_total = 0,1,2,.., iter_this_run consecutive within a run, delta >= rho > 0, rhoend*scale^nruns <= rho <= rhobeg, "
        "delta <= 1e10, rho non-increasing within a run (unless growing.reset_rho), fk non-increasing (deterministic), nf/nx/nruns "
        "non-decreasing and bounded by the final values, 2 <= npt <= allowed maximum; every row must coincide with the live "
        "controller state (rho, delta, nf, nx) captured by the per-iteration hook. Non-trivial = table in which rho was reduced at "
        "least once or a restart occurred; distinct by configuration hash"
        ' Second session: radius-cap family (rhobeg within a few doublings of 1e10); a quarter of the runs un-logged; seldom-used parameter keys.')
ASSUMPTIONS = ["delta <= 1e10 is not claimed for regularised runs (that branch divides by tau and has no cap)",
               "allowed maximum of npt = max(npt, restarts.max_npt when restarts.increase_npt is on)"]
N = {"quick": 1100, "thorough": 22000}
CASE_TIMEOUT = {"quick": 200, "thorough": 600}
NSAMPLES = 4


def documented_columns():
    path = os.path.join(engine.REPO, "docs", "diagnostic.rst")
    cols = re.findall(r"^\* :code:`(\w+)` - ", open(path).read(), flags=re.M)
    return cols


def cases(tier, seed):
    return [dict(i=i, seed=seed) for i in range(N[tier])]


def setup():
    engine.install_core_monitors()
    engine.install_log_tap()


def make_cfg(seed, i):
    rng = engine.rng_for(seed, NUM, i)
    r = rng.random
    cfg = campaign.gen_cfg(rng, noise_p=0.25, averaging_p=0.2, box_p=0.35, proj_p=0.0, reg_p=0.07, restarts_p=0.55, nmax=4, mmax=7,
                           maxfuns=(10, 25, 50, 100, 200), term_p=0.25, allow=("restarts", "regression", "growing", "tols", "random_init", "rare"))
    up = cfg["user_params"]
    up["logging.save_diagnostic_info"] = True
    up["logging.save_poisedness"] = bool(r() < 0.1)
    rhobeg = cfg["args"].get("rhobeg")
    if rhobeg is None and r() < 0.5:
        rhobeg = float(10.0 ** rng.uniform(-2, 0.5))
        cfg["args"]["rhobeg"] = rhobeg
    rb = rhobeg if rhobeg is not None else 0.1 * max(float(np.max(np.abs(cfg["x0"]))), 1.0)
    cfg["args"]["rhoend"] = float(rb * 10.0 ** rng.uniform(-7, -0.2))
    if r() < 0.35:
        # log-uniform over the documented range (0, 1): values below 1/250 matter (rho is multiplied by alpha1 only while
        # rho > 250*rhoend, so a smaller alpha1 can jump over rhoend)
        up["tr_radius.alpha1"] = float(10.0 ** rng.uniform(-4, -0.1))
        up["tr_radius.alpha2"] = float(rng.uniform(0.1, 0.95))
    if up.get("restarts.use_restarts") and r() < 0.4:
        up["restarts.rhoend_scale"] = float(gen.pick(rng, [0.5, 0.1, 0.9]))
    if up.get("restarts.increase_npt") and r() < 0.5:
        amt = int(rng.integers(2, 4))
        up["restarts.increase_npt_amt"] = amt
        up["restarts.hard.increase_ndirs_initial_amt"] = amt
    if up.get("restarts.use_restarts") and r() < 0.3:
        cfg["args"]["rhoend"] = float(rb * 10.0 ** rng.uniform(-2.5, -0.3))    # many restarts
    if cfg.get("reg"):
        up["logging.save_poisedness"] = False
        if r() < 0.6:
            # regularised problem on large data (the radius update divides by a criticality ratio that becomes tiny there)
            bs = float(10.0 ** rng.uniform(2, 5))
            cfg["prob"]["kind"] = "linear"
            cfg["prob"].setdefault("cond", 10.0)
            cfg["prob"].setdefault("scale", 1.0)
            cfg["prob"]["bscale"] = bs
            cfg["reg"]["lam"] = float(cfg["reg"]["lam"]) * bs
            cfg["args"]["maxfun"] = max(int(cfg["args"]["maxfun"]), 60)
    if i % 6 == 5:
        # long growing phase: inverse problem (m < n) started from one direction, with the safety-step variants of the growing code
        n = int(rng.integers(5, 11))
        m = int(rng.integers(2, n))
        cfg = dict(prob=dict(kind=gen.pick(rng, ["linear", "sinlin"]), n=n, m=m, pseed=int(rng.integers(0, 2 ** 31)), cond=10.0, scale=1.0),
                   x0=(rng.normal(size=n)).tolist(), lower=None, upper=None,
                   args=dict(maxfun=int(gen.pick(rng, [40, 80, 150])), rhobeg=float(10.0 ** rng.uniform(-1.5, 0)), rhoend=1e-6),
                   user_params={"logging.save_diagnostic_info": True, "logging.save_poisedness": False,
                                "growing.ndirs_initial": int(rng.integers(1, 3))})
        up = cfg["user_params"]
        if r() < 0.5:
            # converge while the set is still growing, after long successful steps (measured with a probe on the branch: the
            # 'fix geometry' part of the growing safety step needs points further than 10*rho from the incumbent, which only
            # happens when delta has grown far beyond rho on the way): consistent linear system, start 10-100 rhobeg away from the
            # solution set, many dimensions, one initial direction
            n = int(rng.integers(7, 13))
            m = int(rng.integers(2, n - 2))
            cfg["prob"] = dict(kind="linear", n=n, m=m, pseed=int(rng.integers(0, 2 ** 31)), cond=10.0, scale=1.0)
            A, b = gen.linear_data(n, m, cfg["prob"]["pseed"], 10.0, 1.0)
            xs = np.linalg.lstsq(A, b, rcond=None)[0]
            rhobeg = float(10.0 ** rng.uniform(-1.5, 0))
            dvec = A.T @ rng.normal(size=m)
            cfg["x0"] = (xs + dvec / np.linalg.norm(dvec) * rhobeg * float(10.0 ** rng.uniform(1, 2))).tolist()
            cfg["args"].update(rhobeg=rhobeg, maxfun=int(gen.pick(rng, [40, 80])))
            up["growing.ndirs_initial"] = 1
            up["growing.safety.reduce_delta"] = True
        u = r() if "growing.safety.reduce_delta" not in up else 0.0
        if u < 0.6:
            up["growing.safety.reduce_delta"] = True
            if r() < 0.5:
                # make delta small against the distances in the set (the safety branch then shrinks delta further)
                up["tr_radius.gamma_dec"] = float(rng.uniform(0.1, 0.5))
                up["growing.gamma_dec"] = float(rng.uniform(0.1, 0.9))
        elif u < 0.75:
            up["growing.safety.full_geom_step"] = True
        if r() < 0.4:
            up["growing.do_geom_steps"] = True
        if r() < 0.3:
            up["growing.reset_delta"] = True
    if i % 20 == 7:
        # radius at its cap: the start is 1e2..1e5 initial radii away from the solution of a consistent, well-conditioned linear
        # system and rhobeg is within a few doublings of 1e10, so every step is very successful and delta runs into the documented
        # cap (min(max(gamma_inc*delta, gamma_inc_overline*|d|), 1e10)); rhobeg <= 1e10 is the domain (delta = rhobeg at the start)
        g3 = np.random.default_rng([int(seed), NUM, int(i), 9])
        n = int(g3.integers(1, 5))
        m = int(n + g3.integers(0, 3))
        ps = int(g3.integers(0, 2 ** 31))
        A, b = gen.linear_data(n, m, ps, 3.0, 1.0)
        xs = np.linalg.lstsq(A, b, rcond=None)[0]
        rhobeg = float(10.0 ** g3.uniform(7, 10))
        dvec = g3.normal(size=n)
        cfg = dict(prob=dict(kind="linear", n=n, m=m, pseed=ps, cond=3.0, scale=1.0),
                   x0=(xs + dvec / np.linalg.norm(dvec) * rhobeg * float(10.0 ** g3.uniform(2, 5))).tolist(), lower=None, upper=None,
                   args=dict(maxfun=int(gen.pick(g3, [30, 60, 120])), rhobeg=rhobeg, rhoend=float(rhobeg * 10.0 ** g3.uniform(-12, -3))),
                   user_params={"logging.save_diagnostic_info": True, "logging.save_poisedness": False})
        up = cfg["user_params"]
        if g3.random() < 0.5:
            up["tr_radius.gamma_inc"] = float(g3.uniform(1.5, 6.0))
            up["tr_radius.gamma_inc_overline"] = float(g3.uniform(up["tr_radius.gamma_inc"], 20.0))
        if g3.random() < 0.3:
            up["restarts.use_restarts"] = True
            up["restarts.use_soft_restarts"] = bool(g3.random() < 0.5)
        if g3.random() < 0.3:
            cfg["args"]["npt"] = int(n + 1 + g3.integers(1, n + 2))
        cfg["_family"] = "radius-cap"
    if i % 4 == 2:
        cfg["args"]["do_logging"] = False      # as most callers run it; nothing in this oracle needs the log
    campaign.maybe_failpoint(cfg, rng, p=0.12)
    if i % 12 == 3 and cfg["prob"]["n"] >= 2 and not cfg.get("reg"):
        # soft restart that adds points while the initial set is still growing (the point count must stay within restarts.max_npt)
        cfg = campaign.growing_restart_variant(cfg, np.random.default_rng([int(seed), NUM, int(i), 4]), nan_fault=bool(i % 24 == 3))
        cfg["user_params"]["logging.save_diagnostic_info"] = True
        cfg["user_params"]["logging.save_poisedness"] = False
        if i % 48 == 3:
            cfg["user_params"].pop("restarts.max_npt", None)      # default: max_npt = npt
    return cfg


def run_case(case):
    res = dict(stats={}, viol=[], nontrivial=[], inconclusive=[])
    st = res["stats"]
    cfg = case.get("cfg") or make_cfg(case["seed"], case["i"])
    case["cfg"] = cfg
    ctx = engine.Ctx()
    live = []

    def hook(model):
        c = ctx.controllers[-1] if ctx.controllers else None
        if c is not None and c.model is model:
            live.append((c.rho, c.delta, c.nf, c.nx, model.npt()))
    ctx.iter_hook = hook
    run = gen.run_cfg(cfg, ctx=ctx, timeout=90)
    oracles.common_stats(run, st)
    s = run.soln
    if run.timeout:
        res["inconclusive"].append("watchdog")
        return res
    viol = res["viol"]
    if run.livelock:
        viol.append(V("livelock", "more than %d iterations without an evaluation" % engine.LIVELOCK_LIMIT))
        return res
    if run.exc is not None or s is None or s.flag == s.EXIT_INPUT_ERROR:
        return res
    df = s.diagnostic_info
    if df is None:
        viol.append(V("no-table", "logging.save_diagnostic_info=True but soln.diagnostic_info is None"))
        return res
    up = cfg["user_params"]
    want_cols = [c for c in documented_columns() if c not in ("xk", "rk")]
    st["tables_checked"] = 1
    st["rows_checked"] = len(df)
    if sorted(df.columns) != sorted(want_cols):
        viol.append(V("columns", "table columns differ from docs/diagnostic.rst: missing %s, extra %s" % (
            sorted(set(want_cols) - set(df.columns)), sorted(set(df.columns) - set(want_cols)))))
        return res
    if len(df) == 0:
        return res

    def add(kind, msg, **w):
        if len(viol) < 6:
            viol.append(V(kind, msg, **w))
    it = df["iters_total"].to_numpy()
    if not np.array_equal(it, np.arange(len(df))):
        add("iters_total", "iters_total is not 0,1,2,...: %s" % it[:20].tolist())
    if len(df) > ctx.iters:
        add("more-rows-than-iterations", "%d rows for %d iterations" % (len(df), ctx.iters))
    rho = df["rho"].to_numpy(dtype=float)
    delta = df["delta"].to_numpy(dtype=float)
    nruns = df["nruns"].to_numpy()
    itr = df["iter_this_run"].to_numpy()
    nf, nx = df["nf"].to_numpy(), df["nx"].to_numpy()
    npt = df["npt"].to_numpy()
    fk = df["fk"].to_numpy(dtype=float)
    rhobeg = cfg["args"].get("rhobeg")
    if rhobeg is None:
        rhobeg = 0.1 if cfg["args"].get("scaling_within_bounds") else 0.1 * max(float(np.max(np.abs(np.clip(cfg["x0"], run.built.lo, run.built.hi)))), 1.0)
        rhobeg_exact = False
    else:
        rhobeg_exact = True
    rhoend0 = cfg["args"].get("rhoend", 1e-8)
    scale = up.get("restarts.rhoend_scale", 1.0)
    reg = bool(cfg.get("reg"))
    n = cfg["prob"]["n"]
    npt0 = cfg["args"].get("npt") or n + 1
    npt_max = max(npt0, up.get("restarts.max_npt", npt0)) if up.get("restarts.increase_npt") else npt0
    deterministic = not cfg["prob"].get("noise")
    for k in range(len(df)):
        if not (rho[k] > 0 and delta[k] >= rho[k]):
            add("delta>=rho>0", "row %d: delta=%r, rho=%r" % (k, delta[k], rho[k]), row=k)
        re_k = rhoend0
        for _ in range(int(nruns[k])):
            re_k = scale * re_k
        if rho[k] < re_k:
            add("rho>=rhoend", "row %d (nruns=%d): rho=%r below rhoend*scale^nruns=%r" % (k, nruns[k], rho[k], re_k), row=k)
        if rho[k] > rhobeg * (1 + (0 if rhobeg_exact else 1e-12)):
            add("rho<=rhobeg", "row %d: rho=%r above rhobeg=%r" % (k, rho[k], rhobeg), row=k)
        if not reg and delta[k] > 1e10:
            add("delta<=1e10", "row %d: delta=%r" % (k, delta[k]), row=k)
        if not (2 <= npt[k] <= npt_max):
            add("npt-range", "row %d: npt=%d outside [2, %d]" % (k, npt[k], npt_max), row=k, npt=int(npt[k]), allowed=int(npt_max))
        if nf[k] > s.nf or nx[k] > s.nx or nruns[k] > s.nruns:
            add("counter-exceeds-final", "row %d: nf=%d nx=%d nruns=%d vs final nf=%d nx=%d nruns=%d" % (k, nf[k], nx[k], nruns[k], s.nf, s.nx, s.nruns))
        if k > 0:
            same_run = nruns[k] == nruns[k - 1]
            if nf[k] < nf[k - 1] or nx[k] < nx[k - 1] or nruns[k] < nruns[k - 1]:
                add("counter-decreased", "row %d: (nf,nx,nruns) went from (%d,%d,%d) to (%d,%d,%d)" % (k, nf[k - 1], nx[k - 1], nruns[k - 1], nf[k], nx[k], nruns[k]))
            if same_run and itr[k] != itr[k - 1] + 1:
                add("iter_this_run", "row %d: iter_this_run %d follows %d within run %d" % (k, itr[k], itr[k - 1], nruns[k]))
            if not same_run and itr[k] != 0 and nruns[k] == nruns[k - 1] + 1:
                add("iter_this_run", "row %d: first row of run %d has iter_this_run=%d" % (k, nruns[k], itr[k]))
            if same_run and rho[k] > rho[k - 1] and not up.get("growing.reset_rho"):
                add("rho-increased-within-run", "row %d: rho %r -> %r within run %d" % (k, rho[k - 1], rho[k], nruns[k]))
            if deterministic and np.isfinite(fk[k]) and np.isfinite(fk[k - 1]) and fk[k] > fk[k - 1] * (1 + 1e-14) + 1e-300 and fk[k - 1] >= 0:
                add("fk-increased", "row %d: recorded best objective rose from %r to %r (deterministic objective)" % (k, fk[k - 1], fk[k]))
    # every row must coincide with a live controller state captured at the same iteration
    ptr = 0
    for k in range(len(df)):
        while ptr < len(live) and not (live[ptr][0] == rho[k] and live[ptr][1] == delta[k] and live[ptr][2] == nf[k] and live[ptr][3] == nx[k]
                                       and live[ptr][4] == npt[k]):
            ptr += 1
        if ptr >= len(live):
            add("row-not-live-state", "row %d (rho=%r, delta=%r, nf=%d, nx=%d, npt=%d) matches no live controller state captured by the iteration hook" % (
                k, rho[k], delta[k], nf[k], nx[k], npt[k]))
            break
        ptr += 1
    st["live_states_captured"] = len(live)
    feats = []
    if len(np.unique(rho)) > 1:
        feats.append("rho-reduced")
    if nruns[-1] > 0:
        feats.append("restarted")
    if np.any(np.diff(npt) != 0):
        feats.append("npt-changed")
    if up.get("growing.reset_rho"):
        feats.append("reset_rho")
    if np.any(delta == 1e10):
        feats.append("delta-at-cap")
    st["rows_delta_above_1e9"] = int(np.sum(delta > 1e9))
    for f in feats:
        st["feature|" + f] = 1
    if feats:
        res["nontrivial"].append(oracles.cfg_hash(cfg))
    if case["i"] % 150 == 0:
        res["sample"] = dict(case=case["i"], prob=cfg["prob"], args=cfg["args"], user_params=up, rows=len(df),
                             rho_sequence=[float(x) for x in rho[:: max(1, len(rho) // 12)]][:14], final_nruns=int(s.nruns),
                             npt_values=sorted(set(int(x) for x in npt)), features=feats, msg=s.msg)
    return res


def finalize(agg):
    st = agg["stats"]
    reasons = []
    if st.get("rows_checked", 0) < 10000 and agg["tier"] == "quick":
        reasons.append("only %d table rows checked" % st.get("rows_checked", 0))
    for f in ("rho-reduced", "restarted", "npt-changed"):
        if st.get("feature|" + f, 0) < 10:
            reasons.append("feature %s seen only %d times" % (f, st.get("feature|" + f, 0)))
    cov = dict(tables_checked=int(st.get("tables_checked", 0)), rows_checked=int(st.get("rows_checked", 0)),
               live_states_captured=int(st.get("live_states_captured", 0)),
               features={k[8:]: int(v) for k, v in st.items() if k.startswith("feature|")},
               documented_columns=documented_columns(),
               restarts_seen=dict(soft=int(st.get("soft_restarts", 0)), hard=int(st.get("hard_restarts", 0))),
               option_keys_exercised=sorted(k[4:] for k in st if k.startswith("opt|")))
    return cov, reasons

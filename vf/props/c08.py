"""C08 - bad objective values at any evaluation are survived gracefully (fault enumeration at every call index)."""
import copy
import numpy as np
from .. import engine, gen, oracles, campaign
from ..oracles import V

ID = "C08"
NUM = 8
LEVEL = "fault_enumeration"
RULE = ("for each reference run (problem x configuration family: plain, bounded, scaled, projections, soft restarts, hard restarts +/- "
        "use_old_rk, averaging, regression, growing, diagnostics on, raise-on-NaN opted in) EVERY evaluation index k = 1..nf receives "
        "every fault kind in {NaN, +inf, -inf, 1e200, raised exception} in turn, plus faults persisting from k in {1, 2, npt, nf/2} "
        "(exhaustive over k for the reference runs chosen). Oracle per faulted run: no exception (with the raise-on-NaN parameter: "
        "only LinAlgError); bounds exact and budget/counters exact on the faulted history; soln.x finite and equal to a recorded x; if a "
        "point completed before the fault has a finite objective then soln.obj is finite and (no averaging) <= the best of them; "
        "success flag => finite obj; a raised exception reaches the caller as the same object and no evaluation follows it. "
        "Non-trivial/distinct = (reference configuration, k, kind); evidence lists fault positions by algorithm phase x kind"
        ' Second session: families regulariser x projections and print_progress=True.')
ASSUMPTIONS = ["faults are injected at the objfun boundary by the recording wrapper (one residual component, index k mod m)",
               "finding D22 (shared with C10): success flag with a non-finite objective only when no point with a finite objective exists anywhere "
               "in the history",
               "phase of a call is read from the Python call chain of the real code (no source change)"]
NREF = {"quick": 80, "thorough": 800}
KINDS = ["nan", "inf", "-inf", "1e200", "raise"]
FAMILIES = ["plain", "bounded", "scaled", "projections", "soft", "hard", "hard_fresh", "averaging", "regression", "growing", "diagnostics",
            "throw_on_nan", "diagnostics_soft", "growing_soft", "regression_soft", "growing_hard", "regularised", "regularised_soft",
            "regularised_projections", "print_progress"]
CASE_TIMEOUT = {"quick": 600, "thorough": 1800}
NSAMPLES = 5
EXHAUSTIVE = True


def cases(tier, seed):
    return [dict(i=i, seed=seed) for i in range(NREF[tier])]


def setup():
    engine.install_core_monitors()
    engine.install_log_tap()


def make_cfg(seed, i):
    rng = engine.rng_for(seed, NUM, i)
    r = rng.random
    fam = FAMILIES[i % len(FAMILIES)]
    n = int(rng.integers(1, 4))
    spec = gen.gen_problem(rng, kinds=("linear", "sinlin", "rosen", "exp"), n=n, m=int(rng.integers(max(1, n - 1), n + 3)))
    cfg = dict(prob=spec, x0=(rng.normal(size=n) * 2).tolist(), lower=None, upper=None, user_params={},
               args=dict(maxfun=int(gen.pick(rng, [25, 35, 50])), rhoend=float(10.0 ** rng.integers(-5, -2))))
    up = cfg["user_params"]
    if fam in ("bounded", "scaled") or (fam in ("soft", "hard", "regression", "averaging") and r() < 0.4):
        box = gen.gen_box(rng, n, scaling_p=(1.0 if fam == "scaled" else 0.0), one_sided_p=(0.0 if fam == "scaled" else 0.3), place_p=0.5)
        cfg.update(x0=box["x0"], lower=box["lower"], upper=box["upper"])
        cfg["args"]["rhobeg"] = box["rhobeg"]
        cfg["args"]["rhoend"] = box["rhobeg"] * float(10.0 ** rng.integers(-4, -1))
        if box["scaling"]:
            cfg["args"]["scaling_within_bounds"] = True
    if fam == "projections":
        sets, z, margin = gen.gen_convex_sets(rng, n, nsets=int(rng.integers(1, 3)))
        cfg["proj"] = sets
        cfg["x0"] = (z + 0.3 * margin * rng.normal(size=n) / np.sqrt(n)).tolist()
        cfg["args"].update(rhobeg=float(0.3 * margin), rhoend=float(0.3 * margin * 1e-3), maxfun=14)
    if fam in ("soft", "hard", "hard_fresh", "diagnostics_soft", "growing_soft", "regression_soft", "growing_hard"):
        up["restarts.use_restarts"] = True
        if fam.startswith("hard") or fam == "growing_hard":
            up["restarts.use_soft_restarts"] = False
            if fam == "hard_fresh":
                up["restarts.hard.use_old_rk"] = False
        cfg["args"]["rhoend"] = float((cfg["args"].get("rhobeg") or 0.1) * 10.0 ** rng.uniform(-2.5, -1))
        up["restarts.max_unsuccessful_restarts"] = int(gen.pick(rng, [2, 3]))
    if fam == "averaging":
        cfg["nsamples"] = dict(kind="const", v=int(rng.integers(2, 4)))
        spec["noise"] = 1e-3
        spec["nseed"] = int(rng.integers(0, 2 ** 31))
        cfg["args"]["maxfun"] = 40
    if fam in ("growing_soft", "growing_hard"):
        # a restart taken while the initial set is still growing (found by the C10 failpoints: IndexError in soft_restart)
        if n == 1:
            n = 2
            spec.update(n=2, m=max(spec["m"], 2))
            cfg["x0"] = (rng.normal(size=2) * 2).tolist()
            cfg["lower"] = cfg["upper"] = None
            cfg["args"].pop("rhobeg", None)
            cfg["args"].pop("scaling_within_bounds", None)
        up["growing.ndirs_initial"] = int(rng.integers(1, n))
        up["growing.num_new_dirns_each_iter"] = int(rng.integers(0, 2))
    if fam in ("regression", "regression_soft"):
        cfg["args"]["npt"] = int(rng.integers(n + 2, 2 * n + 2)) if n >= 1 else 2
        up["regression.num_extra_steps"] = int(rng.integers(0, 2))
    if fam == "growing" and n > 1 and "growing.ndirs_initial" not in up:
        up["growing.ndirs_initial"] = int(rng.integers(1, n))
        up["growing.num_new_dirns_each_iter"] = int(rng.integers(0, 2))
    if fam in ("diagnostics", "diagnostics_soft"):
        up["logging.save_diagnostic_info"] = True
        up["logging.save_poisedness"] = bool(r() < 0.3)
    if fam == "throw_on_nan":
        up["interpolation.throw_error_on_nans"] = True
    if fam == "print_progress":
        cfg["args"]["print_progress"] = True        # the progress line formats quantities computed from the (possibly overflowed) model
        cfg["_extra_kinds"] = ["1e120"]
    if fam == "regularised_projections":
        # regulariser AND convex sets: the regularised step and the criticality measure go through their projection branches
        sets, z, margin = gen.gen_convex_sets(rng, n, nsets=int(rng.integers(1, 3)))
        cfg["proj"] = sets
        cfg["lower"] = cfg["upper"] = None
        cfg["x0"] = (z + 0.3 * margin * rng.normal(size=n) / np.sqrt(n)).tolist()
        cfg["args"] = dict(rhobeg=float(0.3 * margin), rhoend=float(0.3 * margin * 1e-3), maxfun=14)
        cfg["reg"] = dict(type=gen.pick(rng, ["l1", "l2"]), lam=float(10.0 ** rng.uniform(-2, 0)))
        cfg["_extra_kinds"] = ["1e120"]
    if fam in ("regularised", "regularised_soft"):
        # regularised objective (own step solver, own criticality measure): the same single-evaluation faults, plus a value that is
        # finite but overflow-sized for everything computed from it (its square is 1e240; J'J and ||H|| overflow)
        cfg["reg"] = dict(type=gen.pick(rng, ["l1", "l2"]), lam=float(10.0 ** rng.uniform(-2, 0)))
        cfg["args"]["maxfun"] = int(gen.pick(rng, [14, 20]))
        if fam == "regularised_soft":
            up["restarts.use_restarts"] = True
            up["restarts.max_unsuccessful_restarts"] = 2
            cfg["args"]["rhoend"] = float(0.1 * 10.0 ** rng.uniform(-2.5, -1))
        cfg["_extra_kinds"] = ["1e120"]
    cfg["_family"] = fam
    return cfg


def check_faulted(run, cfg, k, kind, persistent, res, tag):
    st = res["stats"]
    ctx = run.ctx
    b = run.built
    viol = []
    up = cfg.get("user_params") or {}

    def add(kind_, msg, known=None, **w):
        if len(viol) < 4:
            viol.append(V(kind_, "[%s] %s" % (tag, msg), known=known, fault=dict(k=k, kind=kind, persistent=persistent), **w))
    st["faulted_runs"] = st.get("faulted_runs", 0) + 1
    if run.timeout:
        res["inconclusive"].append("watchdog")
        return
    if run.livelock:
        add("livelock", "no objective evaluation for %d iterations after the fault" % engine.LIVELOCK_LIMIT)
        res["viol"].extend(viol)
        return
    calls = ctx.calls
    if kind == "raise":
        raised = [c for c in calls if c["exc"] is not None]
        if len(calls) >= k:
            if run.exc is None:
                add("exception-swallowed", "the objective raised at call %d but solve returned normally (%s)" % (k, getattr(run.soln, "msg", None)))
            elif not raised or run.exc is not raised[0]["exc"]:
                add("exception-not-propagated-unchanged", "solve raised %r instead of the objective's own exception object" % (run.exc,))
            if calls and calls[-1]["k"] != (raised[0]["k"] if raised else -1):
                add("evaluation-after-exception", "%d further evaluation(s) were requested after the objective raised at call %d" % (
                    calls[-1]["k"] - raised[0]["k"] if raised else -1, k))
            st["raise_checked"] = st.get("raise_checked", 0) + 1
        res["viol"].extend(viol)
        return
    if run.exc is not None:
        allowed = bool(up.get("interpolation.throw_error_on_nans")) and isinstance(run.exc, np.linalg.LinAlgError)
        if allowed:
            st["optin_linalgerror_raised"] = st.get("optin_linalgerror_raised", 0) + 1
        else:
            add("exception", "solve raised %s: %s at %s" % (type(run.exc).__name__, str(run.exc)[:100], engine.exc_line(run.exc)),
                where=engine.exc_line(run.exc), tb=run.tb)
        res["viol"].extend(viol)
        return
    s = run.soln
    if s.flag == s.EXIT_INPUT_ERROR:
        res["viol"].extend(viol)
        return
    # bound and budget guarantees survive
    bv, _ = oracles.box_violations(run, b.lo, b.hi, limit=1)
    for v in bv:
        v["msg"] = "[%s] %s" % (tag, v["msg"])
    viol.extend(bv)
    cv, pts = oracles.counting_violations(run, cfg["args"]["maxfun"], b.nsamples, limit=2)
    for v in cv:
        v["msg"] = "[%s] %s" % (tag, v["msg"])
    viol.extend(cv)
    # returned x finite and evaluated
    x = np.asarray(s.x, dtype=float)
    if not np.all(np.isfinite(x)):
        add("non-finite-x-returned", "soln.x = %s" % x.tolist())
    else:
        tolx = (2e-5 * np.sqrt(len(cfg["proj"]) + 1) * (1 + float(np.max(np.abs(x)))) if cfg.get("proj")
                else 1e-12 * (1 + float(np.max(np.abs(x))) + float(np.max(np.abs(np.concatenate([b.lo[np.isfinite(b.lo)], b.hi[np.isfinite(b.hi)], [0.0]]))))))
        if not any(np.max(np.abs(c["x"] - x)) <= tolx for c in calls):
            add("returned-x-never-evaluated", "soln.x is not within rounding of any evaluated point")
    # a bad value never displaces a finite best point found earlier
    tab = oracles.point_table(run, h=(b.h_raw if getattr(b, "h", None) is not None else None))
    order = sorted(tab)
    finite_before = []
    for p in order:
        t = tab[p]
        last_call = t["first"] + len(t["rs"]) - 1
        completed = last_call < k
        if completed and np.all(np.isfinite(np.array(t["rs"]))) and np.isfinite(t["obj"]):
            finite_before.append(t["obj"])
    anyfinite = any(np.isfinite(t["obj"]) for t in tab.values())
    if finite_before:
        st["runs_with_finite_point_before_fault"] = st.get("runs_with_finite_point_before_fault", 0) + 1
        if not np.isfinite(s.obj):
            add("finite-best-point-displaced", "a finite point (obj %.6g) was completed before the fault at call %d but soln.obj = %r (%s)" % (
                min(finite_before), k, float(s.obj), s.msg[:50]), obj=s.obj, best_before=min(finite_before))
        elif not cfg.get("nsamples") and not cfg["prob"].get("noise"):
            best = min(finite_before)
            if not (s.obj <= best * (1 + 1e-12) + 1e-300):
                add("returned-worse-than-earlier-finite-point", "soln.obj = %r > best finite objective %r found before the fault at call %d (%s)" % (
                    float(s.obj), best, k, s.msg[:50]), obj=s.obj, best_before=best)
    if s.flag == s.EXIT_SUCCESS and not np.isfinite(s.obj):
        add("success-with-nonfinite-objective", "flag 0 ('%s') with obj=%r (%s)" % (s.msg, float(s.obj), "a finite point exists" if anyfinite else
            "no finite point anywhere in the history"), known=oracles.d22_key(run, cfg, anyfinite))
    st["oracle_passes"] = st.get("oracle_passes", 0) + 1
    res["viol"].extend(viol)


def run_case(case):
    res = dict(stats={}, viol=[], nontrivial=[], inconclusive=[])
    st = res["stats"]
    cfg = case.get("cfg") or make_cfg(case["seed"], case["i"])
    case["cfg"] = cfg
    fam = cfg["_family"]
    ctx = engine.Ctx()
    ctx.extra["record_phase"] = True
    ref = gen.run_cfg(cfg, ctx=ctx, timeout=120)
    oracles.common_stats(ref, st)
    st["reference_runs"] = 1
    st["family|" + fam] = 1
    if ref.exc is not None or ref.soln is None:
        res["viol"].append(V("exception", "fault-free reference run raised %r" % (ref.exc,)))
        return res
    nf = len(ref.ctx.calls)
    phases = [c.get("phase", "?") for c in ref.ctx.calls]
    npt = cfg["args"].get("npt") or cfg["prob"]["n"] + 1
    nviol_before = 0
    for k in range(1, nf + 1):
        for kind in KINDS + list(cfg.get("_extra_kinds") or []):
            c2 = copy.deepcopy(cfg)
            c2["faults"] = {str(k): kind}
            run = gen.run_cfg(c2, timeout=(150 if cfg.get("proj") else 60))
            check_faulted(run, c2, k, kind, False, res, "%s: %s at call %d of %d (%s)" % (fam, kind, k, nf, phases[k - 1]))
            key = "phase|%s|%s" % (phases[k - 1], kind)
            st[key] = st.get(key, 0) + 1
            res["nontrivial"].append("%s|%d|%s" % (oracles.cfg_hash(cfg), k, kind))
            if len(res["viol"]) > 12:
                break
        if len(res["viol"]) > 12:
            break
    for k in sorted(set([1, 2, npt, max(1, nf // 2)])):
        if k > nf:
            continue
        for kind in ("nan", "inf", "1e200"):
            c2 = copy.deepcopy(cfg)
            c2["persistent"] = [k, kind]
            run = gen.run_cfg(c2, timeout=(150 if cfg.get("proj") else 60))
            check_faulted(run, c2, k, kind, True, res, "%s: %s persisting from call %d" % (fam, kind, k))
            st["persistent_runs"] = st.get("persistent_runs", 0) + 1
            res["nontrivial"].append("%s|p%d|%s" % (oracles.cfg_hash(cfg), k, kind))
    res["viol"] = res["viol"][:12]
    res["sample"] = dict(case=case["i"], family=fam, prob=cfg["prob"], args=cfg["args"], user_params=cfg["user_params"], nf_reference=nf,
                         phases_of_reference_calls=phases, fault_kinds=KINDS, faulted_runs=st.get("faulted_runs", 0))
    return res


def finalize(agg):
    st = agg["stats"]
    reasons = []
    phases = {}
    for k, v in st.items():
        if k.startswith("phase|"):
            _, ph, kind = k.split("|")
            phases.setdefault(ph, {})[kind] = int(v)
    for ph in ("x0", "initialisation", "trial", "geometry", "final-check", "restart"):
        for kind in KINDS:
            if phases.get(ph, {}).get(kind, 0) < 5:
                reasons.append("phase %s x kind %s hit only %d times (< 5)" % (ph, kind, phases.get(ph, {}).get(kind, 0)))
    if st.get("oracle_passes", 0) < 0.5 * st.get("faulted_runs", 1):
        reasons.append("oracle completed on only %d of %d faulted runs" % (st.get("oracle_passes", 0), st.get("faulted_runs", 0)))
    cov = dict(evaluations=int(st.get("faulted_runs", 0)), reference_runs=int(st.get("reference_runs", 0)),
               faulted_runs=int(st.get("faulted_runs", 0)), persistent_fault_runs=int(st.get("persistent_runs", 0)),
               fault_positions_by_phase_and_kind=phases, families={k[7:]: int(v) for k, v in st.items() if k.startswith("family|")},
               raise_faults_checked=int(st.get("raise_checked", 0)), optin_linalgerror_raised=int(st.get("optin_linalgerror_raised", 0)),
               runs_with_finite_point_before_fault=int(st.get("runs_with_finite_point_before_fault", 0)),
               exhaustive_scope="every call index of every reference run x 5 fault kinds")
    return cov, reasons

"""C06 - convex regularised least squares converges to the regularised optimum; argsh/argsprox pass-through."""
import numpy as np
from scipy.optimize import minimize
from .. import engine, gen, oracles, campaign
from ..oracles import V

ID = "C06"
NUM = 6
LEVEL = "exploration"
RULE = ("linear residuals with cond <= 1e2, lambda over 1e-3..10, L1 (with/without box) and L2-norm (without box, or box with 0 "
        "strictly inside / outside) regularisers, x0 spread incl. warm starts with zero residual and starts next to bounds of boxes "
        "in one orthant, argsh/argsprox empty and non-empty (identity of the sentinel objects checked at every call). Reference: "
        "accelerated proximal gradient certified by its own fixed-point residual (L1, L2 unbounded) or multi-start L-BFGS-B with a "
        "KKT certificate (L2 + box); uncertified references are inconclusive cases. Require obj - F* <= 1e-3(1+F*) and success flag. "
        "Non-trivial = certified instance where dfols evaluated the objective >= n+2 times; distinct by configuration hash"
        ' Second session: a third of the runs un-logged; the box handed over as a projection (pass-through clause only); upper-only bounds in the form bounds=(None, upper).')
ASSUMPTIONS = ["reference optimum accepted only with a certificate: prox-gradient fixed point residual <= 1e-7(1+F*) or KKT residual <= 1e-6",
               "clip(soft-threshold) is the exact prox of lambda*||x||_1 + box indicator (separable)"]
N = {"quick": 130, "thorough": 3200}
CASE_TIMEOUT = {"quick": 400, "thorough": 900}
WALL_BUDGET = {"quick": 3600, "thorough": 8 * 3600}
NSAMPLES = 4

PINNED = [
    # finding D8: regulariser + scaling_within_bounds (prox applied in user coordinates, gradient in scaled ones)
    dict(pinned="reg-with-scaling", cfg=dict(n=1, m=3, pseed=117, cond=2.0, scale=2.0, bscale=2.0, lam=1.0, reg="l1",
                                             lower=[-4.9], upper=[2.9], x0=[-1.4], scaling=True, args_mode="none",
                                             family="pinned-D8")),
    # finding D23: at the optimum to 1.4e-4 but 'slow progress' warning instead of the success flag
    dict(pinned="reg-optimal-but-warning-flag",
         cfg={"n": 2, "m": 6, "pseed": 751721977, "cond": 31.020563909311246, "scale": 0.5286778744294666,
              "bscale": 0.5010044645622399, "lam": 0.04251588505829142, "scaling": False, "family": "pinned-D23", "reg": "l1",
              "lower": [-1.4583767356661417, -0.6409043663035043], "upper": [0.3127637844158628, 0.6554706708200786],
              "x0": [0.028793273353497774, 0.6554706708200786], "args_mode": "none"}),
]


NNOREF = {"quick": 80, "thorough": 1200}


def cases(tier, seed):
    out = [dict(i=k, seed=seed, **p) for k, p in enumerate(PINNED)]
    out += [dict(i=len(PINNED) + j, seed=seed) for j in range(N[tier])]
    # cheap cases without the (expensive) certified reference: every clause except optimality - no exception, regulariser and prox
    # called with their extra arguments, box respected, stored objectives include h - on data of size 1e2..1e6
    out += [dict(i=len(PINNED) + N[tier] + j, seed=seed, noref=True) for j in range(NNOREF[tier])]
    return out


def setup():
    engine.install_core_monitors()
    engine.install_log_tap()


def make_cfg(seed, i, bigdata=False):
    rng = engine.rng_for(seed, NUM, i)
    r = rng.random
    n = int(rng.integers(1, 6))
    m = int(rng.integers(n, n + 6))
    cfg = dict(n=n, m=m, pseed=int(rng.integers(0, 2 ** 31)), cond=float(10.0 ** rng.uniform(0, 2)),
               scale=float(10.0 ** rng.uniform(-0.5, 1)), bscale=float(10.0 ** rng.uniform(-0.5, 1)),
               lam=float(10.0 ** rng.uniform(-3, 1)), scaling=False)
    fam = gen.pick(rng, ["l1u", "l1b", "l2u", "l2b_in", "l2b_out", "warm", "orthant"], p=[0.2, 0.25, 0.15, 0.1, 0.1, 0.1, 0.1])
    cfg["family"] = fam
    cfg["reg"] = "l1" if fam in ("l1u", "l1b") else ("l2" if fam.startswith("l2") else gen.pick(rng, ["l1", "l2"]))
    lo = hi = None
    if fam in ("l1b", "l2b_in") or (fam == "warm" and r() < 0.4):
        lo = -rng.random(n) * 2 - 0.3
        hi = rng.random(n) * 2 + 0.3
        if fam == "warm" and cfg["reg"] == "l2":
            lo = hi = None
    elif fam == "l2b_out":
        c = rng.normal(size=n)
        c = c / np.linalg.norm(c) * (2 + r())
        w = 0.3 + rng.random(n) * 0.5
        lo, hi = c - w, c + w
        if np.all(lo <= 0) and np.all(hi >= 0):
            lo = lo + (np.max(hi) + 0.5)
            hi = hi + (np.max(hi) + 0.5)
    elif fam == "orthant":
        # box entirely in one orthant, so h decreases outward across the bound nearest the origin
        sgn = np.where(rng.random(n) < 0.5, -1.0, 1.0)
        near = 0.3 + rng.random(n)
        far = near + 0.8 + rng.random(n) * 2
        lo = np.where(sgn > 0, near, -far)
        hi = np.where(sgn > 0, far, -near)
        if cfg["reg"] == "l2" and False:
            pass
    x0 = rng.normal(size=n) * 10.0 ** rng.uniform(-1, 0.5)
    if fam == "warm":
        # consistent data and a start at the least-squares solution: residual at x0 is numerically zero, only h remains
        cfg["warm"] = True
    if lo is not None:
        x0 = np.clip(x0, lo, hi)
        if fam == "orthant":
            rb = 0.1 * max(np.max(np.abs(x0)), 1.0)
            # x0 within (0.01, 1) * rhobeg of the bound nearest the origin in some coordinates
            for j in range(n):
                if r() < 0.7:
                    d = rb * (0.02 + 0.9 * r())
                    x0[j] = (lo[j] + d) if lo[j] > 0 else (hi[j] - d)
        cfg["lower"], cfg["upper"] = lo.tolist(), hi.tolist()
    else:
        cfg["lower"] = cfg["upper"] = None
    cfg["x0"] = x0.tolist()
    if (bigdata and lo is None) or (i % 11 == 7 and fam in ("l1u", "l2u")):
        # data of size 1e2..1e6 with lambda a fixed fraction of the value that makes x = 0 optimal ("lambda over several decades"
        # is then several decades of very large numbers): criticality measures and step sizes span the floating-point range
        cfg["bscale"] = float(10.0 ** rng.uniform(2, 6))
        A_, b_ = gen.linear_data(n, m, cfg["pseed"], cfg["cond"], cfg["scale"], cfg["bscale"])
        lam_max = 2.0 * float(np.max(np.abs(A_.T @ b_))) if cfg["reg"] == "l1" else 2.0 * float(np.linalg.norm(A_.T @ b_))
        cfg["lam"] = float(10.0 ** rng.uniform(-3, -0.3)) * lam_max
        cfg["family_variant"] = "bigdata"
    cfg["args_mode"] = gen.pick(rng, ["none", "h", "prox", "both"], p=[0.4, 0.15, 0.15, 0.3])
    if r() < 0.15:
        # regularised runs with soft restarts that grow the point set (the only route into Model.add_new_point)
        cfg["restarts"] = dict(increase_npt=bool(r() < 0.8), rhoend=float(10.0 ** rng.uniform(-6, -3)))
        cfg["maxfun"] = int(gen.pick(rng, [80, 150]))
    return cfg


class Sentinel(object):
    def __init__(self, name):
        self.name = name


def build_instance(cfg):
    n, m = cfg["n"], cfg["m"]
    A, b = gen.linear_data(n, m, cfg["pseed"], cfg["cond"], cfg["scale"], cfg["bscale"])
    x0 = np.array(cfg["x0"], dtype=float)
    if cfg.get("warm"):
        rng = np.random.default_rng([cfg["pseed"], 23])
        xt = rng.normal(size=n)
        b = A @ xt
        x0 = np.linalg.lstsq(A, b, rcond=None)[0]
        if cfg.get("lower") is not None:
            lo, hi = np.array(cfg["lower"]), np.array(cfg["upper"])
            if np.any(x0 < lo) or np.any(x0 > hi):
                # keep the warm start inside the box by shifting the box
                c = 0.5 * (lo + hi)
                lo, hi = lo - c + x0, hi - c + x0
                cfg = dict(cfg, lower=lo.tolist(), upper=hi.tolist())
    lam = cfg["lam"]
    lo = gen.arr(cfg.get("lower"), n, -np.inf)
    hi = gen.arr(cfg.get("upper"), n, np.inf)
    return A, b, x0, lam, lo, hi, cfg


def fista(A, b, oprox, hfun, n, iters=40000):
    x = oprox(np.zeros(n), 1.0)
    L = 2 * np.linalg.norm(A, 2) ** 2
    y = x.copy()
    t = 1.0
    for k in range(iters):
        g = 2 * A.T @ (A @ y - b)
        xn = oprox(y - g / L, 1 / L)
        tn = (1 + np.sqrt(1 + 4 * t * t)) / 2
        y = xn + (t - 1) / tn * (xn - x)
        if np.linalg.norm(xn - x) < 1e-15 * (1 + np.linalg.norm(x)) and k > 100:
            x = xn
            break
        x, t = xn, tn
    g = 2 * A.T @ (A @ x - b)
    res = np.linalg.norm(x - oprox(x - g / L, 1 / L)) * L
    return x, float(np.sum((A @ x - b) ** 2) + hfun(x)), float(res)


def reference(A, b, lam, reg, lo, hi, pseed):
    """(F*, x*, certified)"""
    n = A.shape[1]
    bounded = bool(np.isfinite(lo).any() or np.isfinite(hi).any())
    if reg == "l1":
        h = lambda x: lam * np.abs(x).sum()
        oprox = lambda z, u: np.clip(np.sign(z) * np.maximum(np.abs(z) - lam * u, 0), lo, hi)
        x, F, res = fista(A, b, oprox, h, n)
        return F, x, res <= 1e-7 * (1 + F)
    h = lambda x: lam * np.linalg.norm(x)
    if not bounded:
        oprox = lambda z, u: z * max(0.0, 1 - lam * u / max(np.linalg.norm(z), 1e-300))
        x, F, res = fista(A, b, oprox, h, n)
        return F, x, res <= 1e-7 * (1 + F)
    # L2-norm + box: no closed prox; multi-start L-BFGS-B + KKT certificate
    Ffun = lambda x: float(np.sum((A @ x - b) ** 2) + lam * np.linalg.norm(x))

    def gradF(x):
        nx = np.linalg.norm(x)
        return 2 * A.T @ (A @ x - b) + (lam * x / nx if nx > 0 else 0 * x)
    rng = np.random.default_rng([int(pseed), 29])
    zero_inside = bool(np.all(lo <= 0) and np.all(hi >= 0))
    best = None
    for _ in range(5):
        z0 = np.clip(rng.normal(size=n) + (0 if zero_inside else (lo + hi) / 2), lo, hi)
        if np.linalg.norm(z0) == 0:
            z0 = np.clip(z0 + 1e-3, lo, hi)
        rr = minimize(Ffun, z0, jac=gradF, bounds=list(zip(lo, hi)), method="L-BFGS-B",
                      options=dict(ftol=1e-15, gtol=1e-12, maxiter=5000))
        if best is None or rr.fun < best.fun:
            best = rr
    xs, Fs, cert = best.x, float(best.fun), False
    if zero_inside and Ffun(np.zeros(n)) <= Fs:
        xs = np.zeros(n)
        Fs = Ffun(xs)
        cert = bool(np.linalg.norm(2 * A.T @ (-b)) <= lam * (1 + 1e-9))
    if not cert and np.linalg.norm(xs) > 0:
        v = -gradF(xs)
        tol = 1e-6 * (1 + np.abs(v).max())
        atl, atu = xs <= lo + 1e-12, xs >= hi - 1e-12
        free = ~(atl | atu)
        cert = bool(np.all(np.abs(v[free]) <= tol) and np.all(v[atl] <= tol) and np.all(v[atu] >= -tol))
    return Fs, xs, cert


def classify(kind, cfg, gap, tol, flag):
    if cfg.get("scaling"):
        return "reg-with-scaling"
    if kind == "no-success-flag" and flag in (1, 2) and gap <= tol:
        return "reg-optimal-but-warning-flag"
    return None


def run_case(case):
    res = dict(stats={}, viol=[], nontrivial=[], inconclusive=[])
    st = res["stats"]
    cfg0 = case.get("cfg") or make_cfg(case["seed"], case["i"], bigdata=bool(case.get("noref")))
    case["cfg"] = cfg0
    A, b, x0, lam, lo, hi, cfg = build_instance(cfg0)
    n = cfg["n"]
    upper_only = bool(cfg.get("lower") is not None and not cfg.get("scaling") and cfg["reg"] == "l1" and case["i"] % 7 == 3 and case["i"] % 5 != 4)
    if upper_only:
        # one-sided bounds in their documented calling form bounds=(None, upper): the lower side is dropped from the problem (and from
        # the reference), the upper side must still be honoured
        lo = np.full(n, -np.inf)
        st["upper_only_runs"] = 1
    if case.get("noref"):
        Fstar, xstar, cert = None, None, False
        st["cases_without_reference"] = 1
    else:
        Fstar, xstar, cert = reference(A, b, lam, cfg["reg"], lo, hi, cfg["pseed"])
    SH, SP = Sentinel("argsh"), Sentinel("argsprox")
    mode = cfg.get("args_mode", "none")
    argsh = (SH, 2.5) if mode in ("h", "both") else ()
    argsprox = (SP, "tag") if mode in ("prox", "both") else ()
    passv = []
    counts = dict(h=0, prox=0)

    def same_args(got, want):
        return len(got) == len(want) and all(g is w for g, w in zip(got, want))

    def h(x, *a):
        counts["h"] += 1
        if not same_args(a, argsh) and len(passv) < 3:
            passv.append(V("argsh-not-passed-through", "h received extra arguments %r, expected the %d sentinel objects" % (a, len(argsh))))
        return lam * (float(np.abs(x).sum()) if cfg["reg"] == "l1" else float(np.linalg.norm(x)))

    def prox(x, u, *a):
        counts["prox"] += 1
        if not same_args(a, argsprox) and len(passv) < 3:
            passv.append(V("argsprox-not-passed-through", "prox_uh received extra arguments %r, expected the %d sentinel objects" % (a, len(argsprox))))
        if cfg["reg"] == "l1":
            return np.sign(x) * np.maximum(np.abs(x) - lam * u, 0)
        return x * max(0.0, 1 - lam * u / max(np.linalg.norm(x), 1e-300))

    lh = lam * np.sqrt(n) if cfg["reg"] == "l1" else lam
    kw = dict(h=h, lh=lh, prox_uh=prox, argsh=argsh, argsprox=argsprox)
    if cfg.get("lower") is not None:
        kw["bounds"] = (None, hi.copy()) if upper_only else (lo.copy(), hi.copy())
    box_as_projection = bool(cfg.get("lower") is not None and not cfg.get("scaling") and case["i"] % 5 == 4)
    if box_as_projection:
        # the same box handed over as a projection instead of as bounds: the regularised step and the criticality measure then take
        # their convex-set branches, each of which passes the extra arguments on separately. Judged on the pass-through clause only
        # (the optimality clause is stated for bounds)
        kw.pop("bounds")
        kw["projections"] = [lambda w, lo_=lo.copy(), hi_=hi.copy(): np.minimum(np.maximum(w, lo_), hi_)]
        if mode != "both":
            mode = "both"
            argsh, argsprox = (SH, 2.5), (SP, "tag")
            kw["argsh"], kw["argsprox"] = argsh, argsprox
        st["box_as_projection_runs"] = 1
    if cfg.get("scaling"):
        kw["scaling_within_bounds"] = True
    if cfg.get("maxfun"):
        kw["maxfun"] = cfg["maxfun"]
    if cfg.get("restarts"):
        upr = {"restarts.use_restarts": True, "restarts.max_unsuccessful_restarts": 3}
        if cfg["restarts"].get("increase_npt"):
            upr.update({"restarts.increase_npt": True, "restarts.max_npt": int(min(n + 3, (n + 1) * (n + 2) // 2))})
            if upr["restarts.max_npt"] <= n + 1:
                upr.pop("restarts.increase_npt"); upr.pop("restarts.max_npt")
        kw["user_params"] = upr
        kw["rhoend"] = cfg["restarts"]["rhoend"]
        st["family|with-soft-restarts"] = 1
    if cfg.get("lower") is not None and not cfg.get("scaling"):
        # keep the call valid: the default rhobeg = 0.1*max(|x0|,1) can exceed half the narrowest gap of a box far from the origin
        kw["rhobeg"] = float(min(0.1 * max(float(np.max(np.abs(x0))), 1.0), 0.45 * float(np.min(hi - lo))))
    ctx = engine.Ctx()
    tab = campaign.PointTable(ctx)
    hookv = []

    def hook(model):
        # mechanism behind the property: every stored objective value includes h *at the point that was evaluated*
        st["stored_objective_checks"] = st.get("stored_objective_checks", 0) + model.npt()
        if hookv:
            return
        for k in range(model.npt()):
            t = tab.get(int(model.eval_num[k]))
            if t is None or len(t["rs"]) != 1:
                continue
            xk = t["x"]
            want = float(np.dot(model.fval_v[k], model.fval_v[k])) + lam * (float(np.abs(xk).sum()) if cfg["reg"] == "l1" else float(np.linalg.norm(xk)))
            got = float(model.objval[k])
            if not (abs(got - want) <= 1e-9 * (1 + abs(want))):
                hookv.append(V("stored-objective-without-h-at-evaluated-point",
                               "iteration %d: model point %d (evaluation %d) stores objective %r but sum(r^2)+h(x evaluated)=%r" % (
                                   ctx.iters, k, int(model.eval_num[k]), got, want), known=classify("stored", cfg, np.inf, 0, None),
                               got=got, want=want, x=xk))
                break
    ctx.iter_hook = hook
    if case["i"] % 3 == 1:
        kw["do_logging"] = False      # as most callers run it (the stored-objective hook, which needs point numbers, is idle then)
        st["runs_without_logging"] = 1
    run = engine.run_solve(lambda x: A @ x - b, x0.copy(), ctx=ctx, timeout=CASE_TIMEOUT["quick"] - 50, solve_kwargs=kw)
    run.cfg = None
    oracles.common_stats(run, st)
    st["family|" + str(cfg.get("family", "pinned"))] = 1
    st["argsmode|" + mode] = 1
    st["h_calls"] = counts["h"]
    st["prox_calls"] = counts["prox"]
    if run.timeout:
        res["inconclusive"].append("watchdog")
        return res
    if run.exc is not None and box_as_projection and isinstance(run.exc, RuntimeError) and "initial directions" in str(run.exc):
        st["box_as_projection_startup_failures"] = 1       # the convex start-up's own finding (C07), not a matter of this check
        return res
    if run.exc is not None:
        res["viol"].append(V("exception", "regularised solve raised %r at %s" % (run.exc, engine.exc_line(run.exc)), tb=run.tb,
                             known=classify("exception", cfg, np.inf, 0, None)))
        return res
    s = run.soln
    if s.flag == s.EXIT_INPUT_ERROR:
        res["inconclusive"].append("generated instance was rejected as invalid input: %s" % s.msg)
        return res
    res["viol"].extend(passv)
    res["viol"].extend(hookv)
    if counts["h"] < 1 or counts["prox"] < 1:
        res["viol"].append(V("regulariser-never-called", "h called %d times, prox_uh %d times" % (counts["h"], counts["prox"])))
    if box_as_projection:
        return res
    bv, _ = oracles.box_violations(run, lo, hi, limit=1)
    res["viol"].extend(bv)
    if not cert:
        if not case.get("noref"):
            st["reference_uncertified"] = 1
        return res
    st["oracle_evaluations"] = 1
    gap = float(s.obj - Fstar)
    tol = 1e-3 * (1 + Fstar)
    if gap < -1e-7 * (1 + Fstar):
        # recompute the true objective at the returned x before blaming the oracle
        Ftrue = float(np.sum((A @ s.x - b) ** 2) + lam * (np.abs(s.x).sum() if cfg["reg"] == "l1" else np.linalg.norm(s.x)))
        if Ftrue - Fstar < -1e-7 * (1 + Fstar):
            res["inconclusive"].append("dfols point beats the certified reference (%r < %r)" % (Ftrue, Fstar))
            return res
    coarse = False
    if cfg.get("restarts"):
        # this family passes its own (coarse) rhoend so that restarts happen within the budget; the property is stated for the default
        # rhoend. The iterate can legitimately stop ~rhoend away from the minimiser, which costs up to Lip(F)*rhoend in objective:
        # the optimality clause is only applied when that is two orders below the tolerance (the bookkeeping clauses always are)
        lip = lam * (np.sqrt(n) if cfg["reg"] == "l1" else 1.0) + 2.0 * float(np.linalg.norm(A, 2)) * float(np.linalg.norm(A @ xstar - b))
        coarse = bool(100.0 * lip * cfg["restarts"]["rhoend"] > tol)
        if coarse:
            st["optimality_clause_skipped_coarse_rhoend"] = 1
    if not (gap <= tol) and not coarse:
        res["viol"].append(V("not-optimal", "F - F* = %.3e > 1e-3(1+F*) = %.3e (family %s, reg %s, lam %.2e, n=%d, flag %d %s, nf %d)" % (
            gap, tol, cfg.get("family"), cfg["reg"], lam, n, s.flag, s.msg[:40], s.nf), known=classify("not-optimal", cfg, gap, tol, s.flag),
            gap=gap, Fstar=Fstar, obj=s.obj, x=s.x, xstar=xstar, cfg=cfg))
    if cfg.get("restarts") and s.flag == s.EXIT_MAXFUN_WARNING:
        # restarts never stop by themselves before max_unsuccessful_restarts: running into the (reduced) budget of this family is
        # what the options ask for, not a failure to report success
        st["restart_family_ended_on_budget"] = 1
    elif s.flag != s.EXIT_SUCCESS:
        res["viol"].append(V("no-success-flag", "flag=%d (%s), gap %.3e (tol %.3e), nf=%d, family %s" % (s.flag, s.msg, gap, tol, s.nf, cfg.get("family")),
                             known=classify("no-success-flag", cfg, gap, tol, s.flag), flag=s.flag, gap=gap, cfg=cfg))
    if s.nf >= n + 2:
        res["nontrivial"].append(oracles.cfg_hash(cfg0))
    if case["i"] % 25 == 0:
        res["sample"] = dict(case=case["i"], cfg=cfg0, Fstar=Fstar, obj=float(s.obj), gap=gap, flag=s.flag, nf=s.nf,
                             h_calls=counts["h"], prox_calls=counts["prox"])
    return res


def finalize(agg):
    st = agg["stats"]
    reasons = []
    nref = agg["ncases"] - int(st.get("cases_without_reference", 0))
    if st.get("oracle_evaluations", 0) < 0.8 * nref:
        reasons.append("certified reference available for only %d of %d cases" % (st.get("oracle_evaluations", 0), nref))
    if st.get("prox_calls", 0) == 0 or st.get("h_calls", 0) == 0:
        reasons.append("pass-through recorder saw no call")
    for k in ("argsmode|both", "argsmode|prox", "argsmode|h"):
        if st.get(k, 0) < 3:
            reasons.append("%s exercised %d times" % (k, st.get(k, 0)))
    cov = dict(objfun_calls=int(st.get("objfun_calls", 0)), oracle_evaluations=int(st.get("oracle_evaluations", 0)),
               reference_uncertified=int(st.get("reference_uncertified", 0)), h_calls=int(st.get("h_calls", 0)),
               prox_calls=int(st.get("prox_calls", 0)),
               classes={k: int(v) for k, v in st.items() if k.startswith("family|") or k.startswith("argsmode|")})
    return cov, reasons

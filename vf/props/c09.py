"""C09 - general convex constraints hold at every evaluation up to Dykstra's tolerance."""
import numpy as np
from .. import engine, gen, oracles
from ..oracles import V

ID = "C09"
NUM = 9
LEVEL = "exploration"
RULE = ("convex-constrained solver runs: 1-3 balls/half-spaces/boxes with a common interior point (margin 0.05..1), with and without "
        "bounds, x0 feasible / infeasible by 1e-9..1e-3 (inside np.allclose's tolerance) / far outside, dykstra.d_tol in "
        "{1e-8,1e-10,1e-12}, dykstra.max_iters in {20,100,500}, soft/hard restarts on/off. Every dykstra call made by solver/model/"
        "controller is logged (tolerance and sweep cap as received, sweeps counted through wrapped projectors). Oracle: each recorded x "
        "is bit-identical to the output of a logged call (first evaluation: the call made by solve itself on x0); if that call "
        "stopped by its rule, x is within sqrt(p*tol)(1+1e-9) of each of the p sets; with bounds, lower <= x <= upper exactly for "
        "every call. Non-trivial = run in which >= 1 evaluated point lay on the boundary of a user set or bound; distinct by "
        "configuration hash"
        " Second session: distances judged with the harness's own projectors; in-place user projectors and other calling forms on 30 % of the runs.")
ASSUMPTIONS = ["projectors supplied by the harness are exact projections",
               "tol / max_iter are those each logged call actually received: the model's own calls use the defaults (1e-10, 100) whatever "
               "dykstra.d_tol / dykstra.max_iters say (recorded as an observation)"]
N = {"quick": 520, "thorough": 8000}
CASE_TIMEOUT = {"quick": 400, "thorough": 900}
NSAMPLES = 4
KEEP_MODS = ("dfols.model", "dfols.solver", "dfols.controller")


def cases(tier, seed):
    return [dict(i=i, seed=seed) for i in range(N[tier])]


def setup():
    engine.install_core_monitors()
    engine.install_log_tap()
    engine.install_dykstra_logger()


def make_x0proj_cfg(rng):
    """Directed at 'an infeasible x0 is replaced by its projection before the first evaluation': geometries on which Dykstra needs
    many sweeps (a half-space cutting off the corner of a box; two balls with a thin lens; a wedge), far from the origin (||x||
    up to 1e3), x0 far outside, user tolerance and sweep cap from the documented parameters, tiny budget (the first evaluation is
    what matters)."""
    r = rng.random
    n = int(rng.integers(2, 4))
    off = float(10.0 ** rng.uniform(0, 3)) * rng.choice([-1.0, 1.0], size=n) if r() < 0.7 else np.zeros(n)
    L = float(10.0 ** rng.uniform(0, 3))
    kind = gen.pick(rng, ["corner", "corner", "lens", "wedge"])
    cfg = dict(prob=gen.gen_problem(rng, kinds=("linear", "sinlin"), n=n, m=n + 1), user_params={}, lower=None, upper=None)
    if kind == "corner":
        lo, hi = off, off + L
        a = np.ones(n) / np.sqrt(n)
        bcut = float(a @ hi - 0.25 * L * (0.5 + r()))       # keeps the part of the box next to the corner 'hi' out
        sets = [dict(type="half", a=a.tolist(), b=bcut)]
        if r() < 0.5:
            cfg["lower"], cfg["upper"] = lo.tolist(), hi.tolist()
        else:
            sets.append(dict(type="box", l=lo.tolist(), u=hi.tolist()))
        z = lo + 0.3 * L
        x0 = hi + L * (0.5 + 4 * rng.random(n)) * np.where(rng.random(n) < 0.8, 1.0, -3.0)
    elif kind == "lens":
        d = rng.normal(size=n); d /= np.linalg.norm(d)
        R = L
        gap = R * float(10.0 ** rng.uniform(-2, -0.5))
        c1, c2 = off - d * (R - gap), off + d * (R - gap)
        sets = [dict(type="ball", c=c1.tolist(), r=R), dict(type="ball", c=c2.tolist(), r=R)]
        z = off
        perp = rng.normal(size=n); perp -= (perp @ d) * d; perp /= np.linalg.norm(perp)
        x0 = off + perp * R * (1.5 + 3 * r()) + d * R * rng.normal() * 0.3
    else:
        u, v = np.linalg.qr(rng.normal(size=(n, n)))[0][:, :2].T
        phi = float(10.0 ** rng.uniform(-1.5, -0.3))
        sets = []
        for sgn in (1.0, -1.0):
            a = sgn * np.cos(phi) * v - np.sin(phi) * u
            sets.append(dict(type="half", a=a.tolist(), b=float(a @ off)))
        sets.append(dict(type="ball", c=(off + u * L).tolist(), r=1.5 * L))
        z = off + u * L * 0.8
        x0 = off - u * L * (1 + 3 * r()) + v * L * rng.normal()
    margin = 0.05 * L
    cfg["proj"] = sets
    cfg["x0"] = x0.tolist()
    cfg["args"] = dict(rhobeg=float(margin), rhoend=float(margin * 1e-3), maxfun=n + 3)
    up = cfg["user_params"]
    up["dykstra.d_tol"] = float(gen.pick(rng, [1e-8, 1e-10, 1e-12, 1e-14]))
    up["dykstra.max_iters"] = int(gen.pick(rng, [100, 1000, 5000]))
    if r() < 0.35:
        # defaults that depend on the noise flag must not include the projection tolerance (documented default: 1e-10 always)
        cfg["args"]["objfun_has_noise"] = True
        if r() < 0.6:
            up.pop("dykstra.d_tol", None)
            up.pop("dykstra.max_iters", None)
    cfg["_variant"] = "x0proj/" + kind
    return cfg


def make_cfg(seed, i):
    rng = engine.rng_for(seed, NUM, i)
    r = rng.random
    if i % 4 == 3:
        return make_x0proj_cfg(rng)
    spec = gen.gen_problem(rng, kinds=("linear", "sinlin", "rosen", "exp"), nmax=3, mmax=5)
    n = spec["n"]
    margin = float(10.0 ** rng.uniform(-1.3, 0))
    sets, z, margin = gen.gen_convex_sets(rng, n, nsets=int(rng.integers(1, 4)), margin=margin)
    cfg = dict(prob=spec, user_params={}, lower=None, upper=None, proj=sets)
    up = cfg["user_params"]
    if r() < 0.45:
        w_lo = margin * (0.5 + 2 * rng.random(n))
        w_hi = margin * (0.5 + 2 * rng.random(n))
        cfg["lower"] = (z - w_lo).tolist()
        cfg["upper"] = (z + w_hi).tolist()
        if r() < 0.3:
            cfg["upper"] = None
    if cfg["lower"] is not None and cfg["upper"] is not None and r() < 0.15:
        cfg.setdefault("args", {})
        cfg["_scaling_ignored"] = True        # scaling_within_bounds with projections: documented to be ignored (with a warning)
    # starting point: feasible / hair outside / far
    u = r()
    P = [gen.make_projection(s) for s in sets]
    if cfg["lower"] is not None:
        lo = np.array(cfg["lower"]); hi = gen.arr(cfg["upper"], n, 1e20)
        P.append(lambda x: np.minimum(np.maximum(x, lo), hi))
    xin = z + 0.5 * margin * rng.normal(size=n) / np.sqrt(n) * r()
    if u < 0.3:
        x0 = xin
    elif u < 0.55:
        # on the boundary, then pushed outside by 1e-9..1e-3 relative (the window np.allclose used to hide)
        far = z + 10 * margin * rng.normal(size=n)
        xb = far.copy()
        for _ in range(200):
            for q in P:
                xb = q(xb)
        dvec = xb - z
        dvec = dvec / max(np.linalg.norm(dvec), 1e-300)
        x0 = xb + dvec * float(10.0 ** rng.uniform(-9, -3)) * max(1.0, float(np.linalg.norm(xb)))
    else:
        x0 = z + margin * rng.normal(size=n) * float(10.0 ** rng.uniform(0, 1.5))
    if r() < 0.3:
        # move the whole problem next to the origin: with |x0_j| below rhobeg the differences (y - xbase) are no longer exact, so
        # "xbase + (y - xbase)" is not bit-identical to the projection output y (any place that re-assembles a point instead of
        # evaluating the routine's output shows here, nowhere else)
        xp = np.array(x0, dtype=float)
        for _ in range(300):
            for q in P:
                xp = q(xp)
        # (the point solve() will start from - x0 projected - lands within a fraction of rhobeg of the origin, coordinate by coordinate)
        t = -xp + 0.3 * margin * rng.normal(size=n) * (10.0 ** rng.uniform(-2, -0.3, size=n))
        for p in sets:
            if p["type"] == "ball":
                p["c"] = (np.array(p["c"]) + t).tolist()
            elif p["type"] == "half":
                p["b"] = float(p["b"] + np.array(p["a"]) @ t)
            else:
                p["l"] = (np.array(p["l"]) + t).tolist(); p["u"] = (np.array(p["u"]) + t).tolist()
        if cfg["lower"] is not None:
            cfg["lower"] = (np.array(cfg["lower"]) + t).tolist()
        if cfg["upper"] is not None:
            cfg["upper"] = (np.array(cfg["upper"]) + t).tolist()
        x0 = x0 + t
    cfg["x0"] = x0.tolist()
    cfg["args"] = dict(rhobeg=float(0.3 * margin), rhoend=float(0.3 * margin * 10.0 ** rng.integers(-6, -2)),
                       maxfun=int(gen.pick(rng, [12, 20, 30])))
    if cfg.pop("_scaling_ignored", False):
        cfg["args"]["scaling_within_bounds"] = True
    if r() < 0.15:
        cfg["args"]["objfun_has_noise"] = True
        cfg["args"]["maxfun"] = min(int(cfg["args"]["maxfun"]), 20)
    if r() < 0.6:
        up["dykstra.d_tol"] = float(gen.pick(rng, [1e-8, 1e-10, 1e-12]))
    if r() < 0.5:
        up["dykstra.max_iters"] = int(gen.pick(rng, [20, 100, 500]))
    if r() < 0.3:
        up["regression.num_extra_steps"] = int(rng.integers(1, 3))
        if r() < 0.6:
            up["regression.momentum_extra_steps"] = True
        cfg["args"]["maxfun"] = 30
    if r() < 0.35:
        up["restarts.use_restarts"] = True
        if r() < 0.5:
            up["restarts.use_soft_restarts"] = False
            if r() < 0.5:
                up["restarts.hard.use_old_rk"] = False
        cfg["args"]["rhoend"] = float(0.3 * margin * 1e-2)
        if up.get("restarts.use_soft_restarts", True) and r() < 0.5:
            # soft restarts that add points: the only evaluations made outside the trust-region / geometry / initialisation code
            up["restarts.increase_npt"] = True
            up["restarts.max_npt"] = int(n + 1 + rng.integers(1, 4))
            if r() < 0.5:
                up["restarts.increase_npt_amt"] = 2
            cfg["args"]["maxfun"] = int(gen.pick(rng, [30, 45]))
            cfg["args"]["rhoend"] = float(0.3 * margin * 10.0 ** rng.uniform(-1.5, -0.5))
    g2 = np.random.default_rng([int(seed), NUM, int(i), 7])
    if g2.random() < 0.3:
        # calling forms: in-place user projectors above all (the routine must own every vector it hands to a projector)
        cfg["_forms"] = sorted(set(["proj_inplace"] + [f for f in gen.sample_forms(g2) if f != "extra_args"]))
    return cfg


def run_case(case):
    res = dict(stats={}, viol=[], nontrivial=[], inconclusive=[])
    st = res["stats"]
    cfg = case.get("cfg") or make_cfg(case["seed"], case["i"])
    case["cfg"] = cfg
    ctx = engine.Ctx()
    outputs = {}      # bytes of output -> info of the most recent logged call with that output
    solver_calls = []
    counts = dict(total=0, kept=0, inner=0)
    obs_defaults = dict(model_tol=set(), model_mi=set())

    def hook(info):
        counts["total"] += 1
        if info["mod"] in KEEP_MODS:
            counts["kept"] += 1
            rec = dict(mod=info["mod"], line=info["line"], p=info["p"], tol=info["tol"], max_iter=info["max_iter"],
                       sweeps=info["sweeps"], out=np.array(info["out"], copy=True), P=info["P"])
            rec["calls_before"] = len(ctx.calls)          # evaluations completed when this output was produced
            key = rec["out"].tobytes()
            if key in outputs:
                rec["calls_before"] = min(rec["calls_before"], outputs[key]["calls_before"])   # keep the earliest time it was produced
            outputs[key] = rec
            if info["mod"] == "dfols.solver":
                solver_calls.append(rec)
            if info["mod"] == "dfols.model":
                obs_defaults["model_tol"].add(info["tol"])
                obs_defaults["model_mi"].add(info["max_iter"])
        else:
            counts["inner"] += 1
    ctx.dykstra_hook = hook
    run = gen.run_cfg(cfg, ctx=ctx, timeout=300)
    b = run.built
    oracles.common_stats(run, st)
    st["dykstra_calls_total"] = counts["total"]
    st["dykstra_calls_logged_model_solver_controller"] = counts["kept"]
    if run.timeout:
        res["inconclusive"].append("watchdog")
        return res
    viol = res["viol"]
    nsets = len(cfg["proj"])
    on_boundary = 0
    for call in ctx.calls:
        x = call["x"]
        k = call["k"]
        st["evaluations_checked"] = st.get("evaluations_checked", 0) + 1
        rec = outputs.get(x.tobytes())
        if rec is not None and rec["calls_before"] >= k:
            # causality: the routine produced these bits only AFTER the point had been evaluated (e.g. a later re-projection of the
            # stored point), so the evaluated point was not taken from the routine
            st["outputs_seen_only_after_the_evaluation"] = st.get("outputs_seen_only_after_the_evaluation", 0) + 1
            rec = None
        if k == 1:
            # an infeasible x0 is replaced by its projection before the first evaluation
            if not solver_calls:
                viol.append(V("x0-not-projected", "no projection call was made by solve before the first evaluation"))
            elif not np.array_equal(solver_calls[0]["out"], x):
                viol.append(V("x0-not-projected", "first evaluation differs from the projection of x0 by %.3g (x0 infeasible by %.3g)" % (
                    float(np.max(np.abs(solver_calls[0]["out"] - x))),
                    max(gen.set_distance(s, np.array(cfg["x0"])) for s in cfg["proj"])), x=x, projected=solver_calls[0]["out"], x0=cfg["x0"]))
            rec = rec or (solver_calls[0] if solver_calls else None)
            # independent reference: the same algorithm in the harness with the CONFIGURED tolerance and sweep cap. If it meets its
            # stopping rule, "x0 is replaced by its projection" means the first evaluation is within sqrt(p*tol) of every set
            d_tol = (cfg.get("user_params") or {}).get("dykstra.d_tol", 1e-10)
            d_mi = (cfg.get("user_params") or {}).get("dykstra.max_iters", 100)
            Pall = [gen.make_projection(s_) for s_ in cfg["proj"]] + [lambda w: np.minimum(np.maximum(w, np.where(np.isfinite(b.lo), b.lo, -1e20)),
                                                                                       np.where(np.isfinite(b.hi), b.hi, 1e20))]
            xr, sweeps_r = harness_dykstra(Pall, np.array(cfg["x0"], dtype=float), d_mi, d_tol)
            if sweeps_r < d_mi:
                st["x0_reference_projection_converged"] = st.get("x0_reference_projection_converged", 0) + 1
                lim0 = np.sqrt(len(Pall) * d_tol) * (1 + 1e-9)
                dist0 = max(float(np.linalg.norm(x - q(x))) for q in Pall)
                if dist0 > lim0:
                    viol.append(V("first-evaluation-not-the-projection-of-x0", "a reference Dykstra with the configured tolerance %.0e meets its stopping rule "
                                  "after %d sweeps, but the first evaluation is %.3g from a set (> sqrt(p*tol) = %.3g)" % (d_tol, sweeps_r, dist0, lim0),
                                  x=x, x0=cfg["x0"], dist=dist0))
        if rec is None:
            if len(viol) < 6:
                viol.append(V("evaluated-point-not-a-projection-output", "call %d: x is not the output of any logged projection call" % k, x=x, call=k))
            continue
        if rec["sweeps"] < rec["max_iter"]:
            st["evaluations_from_converged_projection"] = st.get("evaluations_from_converged_projection", 0) + 1
            lim = np.sqrt(rec["p"] * rec["tol"]) * (1 + 1e-9)
            # judged with the harness's own projectors for the described sets (user sets, then the bound box); the callables of the
            # logged call are code under test and may be in-place ones (they would overwrite the recorded point)
            Pown = [gen.make_projection(s_) for s_ in cfg["proj"]] + [lambda w: np.minimum(np.maximum(w, np.where(np.isfinite(b.lo), b.lo, -1e20)),
                                                                                       np.where(np.isfinite(b.hi), b.hi, 1e20))]
            Pj = Pown if rec["p"] == len(Pown) else [(lambda w, q_=q_: q_(np.array(w, copy=True))) for q_ in rec["P"]]
            dist = max(float(np.linalg.norm(x - q(x))) for q in Pj)
            if dist > lim and len(viol) < 6:
                viol.append(V("evaluation-infeasible-beyond-dykstra-tolerance", "call %d: %.3g from a set although its projection call stopped by rule "
                              "after %d sweeps (sqrt(p*tol) = %.3g)" % (k, dist, rec["sweeps"], lim), x=x, dist=dist, p=rec["p"], tol=rec["tol"]))
        else:
            st["evaluations_from_capped_projection"] = st.get("evaluations_from_capped_projection", 0) + 1
        if rec["p"] != nsets + 1:
            viol.append(V("projection-list-size", "projection call used %d sets, expected %d user sets + the bound box" % (rec["p"], nsets)))
        dmin = min(gen.set_distance(s, x + 0) for s in cfg["proj"])
        if any(abs(_bdist(s, x)) < 1e-7 for s in cfg["proj"]) or np.any(x == b.lo) or np.any(x == b.hi):
            on_boundary += 1
    bv, _n = oracles.box_violations(run, b.lo, b.hi, limit=3)
    viol.extend(bv)
    st["evaluations_on_a_boundary"] = on_boundary
    for t in obs_defaults["model_tol"]:
        st["obs|model_call_tol=%g" % t] = 1
    for t in obs_defaults["model_mi"]:
        st["obs|model_call_max_iter=%d" % t] = 1
    x0 = np.array(cfg["x0"])
    infeas0 = max(gen.set_distance(s, x0) for s in cfg["proj"])
    st["x0|%s" % ("feasible" if infeas0 == 0 else ("hair-outside" if infeas0 < 1e-2 * (1 + np.linalg.norm(x0)) else "far"))] = 1
    if on_boundary > 0:
        res["nontrivial"].append(oracles.cfg_hash(cfg))
    if case["i"] % 60 == 0:
        res["sample"] = dict(case=case["i"], proj=cfg["proj"], lower=cfg["lower"], upper=cfg["upper"], x0=cfg["x0"], args=cfg["args"],
                             user_params=cfg["user_params"], evaluations=len(ctx.calls), x0_infeasibility=infeas0,
                             dykstra_calls=counts, evaluations_on_boundary=on_boundary,
                             msg=getattr(run.soln, "msg", None), exc=repr(run.exc) if run.exc else None)
    return res


def harness_dykstra(P, x0, max_iter, tol):
    """Dykstra's algorithm with the library's stopping quantity (sum of squared changes of the correction vectors), written
    independently in the harness. Returns (x, sweeps)."""
    x = np.array(x0, dtype=float)
    y = [np.zeros_like(x) for _ in P]
    n = 0
    cI = np.inf
    while n < max_iter and cI >= tol:
        cI = 0.0
        for i, proj in enumerate(P):
            z = x - y[i]
            xn = proj(z)
            ynew = xn - z
            cI += float(np.sum((y[i] - ynew) ** 2))
            y[i] = ynew
            x = xn
        n += 1
    return x, n


def _bdist(s, x):
    if s["type"] == "ball":
        return float(s["r"] - np.linalg.norm(x - np.array(s["c"])))
    if s["type"] == "half":
        return float(s["b"] - np.array(s["a"]) @ x)
    return float(min(np.min(x - np.array(s["l"])), np.min(np.array(s["u"]) - x)))


def finalize(agg):
    st = agg["stats"]
    reasons = []
    if st.get("evaluations_checked", 0) < 2000 and agg["tier"] == "quick":
        reasons.append("only %d evaluations checked" % st.get("evaluations_checked", 0))
    if st.get("dykstra_calls_logged_model_solver_controller", 0) == 0:
        reasons.append("dykstra logger saw no call (binding not reached)")
    for k in ("x0|feasible", "x0|hair-outside", "x0|far"):
        if st.get(k, 0) < 10:
            reasons.append("%s exercised %d times" % (k, st.get(k, 0)))
    nexc = sum(v for k, v in st.items() if k.startswith("exc|"))
    if nexc > 0.05 * max(1, st.get("runs", 1)):
        reasons.append("%d of %d runs raised" % (nexc, st.get("runs", 0)))
    cov = dict(objfun_calls=int(st.get("objfun_calls", 0)), evaluations_checked=int(st.get("evaluations_checked", 0)),
               from_converged_projection=int(st.get("evaluations_from_converged_projection", 0)),
               from_capped_projection=int(st.get("evaluations_from_capped_projection", 0)),
               evaluations_on_a_boundary=int(st.get("evaluations_on_a_boundary", 0)),
               dykstra_calls_total=int(st.get("dykstra_calls_total", 0)),
               dykstra_calls_logged=int(st.get("dykstra_calls_logged_model_solver_controller", 0)),
               x0_classes={k[3:]: int(v) for k, v in st.items() if k.startswith("x0|")},
               observations=sorted(k[4:] for k in st if k.startswith("obs|")),
               restarts_seen=dict(soft=int(st.get("soft_restarts", 0)), hard=int(st.get("hard_restarts", 0))))
    return cov, reasons

"""C05 - linear least-squares problems are solved to global optimality (default budget)."""
import numpy as np
from scipy.optimize import lsq_linear
from .. import engine, gen, oracles
from ..oracles import V

ID = "C05"
NUM = 5
LEVEL = "exploration"
RULE = ("A = U diag(s) V' with prescribed cond in [1,1e3] and overall scale over two decades, m >= n and m < n (full row rank), "
        "n <= 8; unconstrained / boxes centred near or away from the unconstrained minimiser / scaled; npt in [n+1, 2n+1]; default "
        "maxfun and rhoend. Oracle: scipy.optimize.lsq_linear (bvls and trf must agree) gives f*; require exact feasibility, "
        "obj - f* <= 1e-6(1+f*), success flag. Non-trivial = at least one bound active at the oracle's solution, or m != n; "
        "distinct by configuration hash"
        ' Second session: every second instance runs with do_logging=False.')
ASSUMPTIONS = ["scipy.optimize.lsq_linear (two independent methods cross-checked to 1e-9(1+f*)) is the reference for f*",
               "a case where dfols beats the reference by more than 1e-9(1+f*) indicts the oracle and is inconclusive"]
N = {"quick": 3000, "thorough": 20000}
CASE_TIMEOUT = {"quick": 300, "thorough": 600}
NSAMPLES = 4


PINNED = [
    # finding: optimum reached at a point with n-1 of n bounds active, but the interpolation set degenerates there and the run ends
    # with the linear-algebra error flag instead of success
    dict(pinned="optimal-at-near-vertex-but-linalg-flag", cfg={"prob": {"kind": "linear", "n": 8, "m": 11, "pseed": 1937376546, "cond": 30.572856497908543, "scale": 0.8442111524804559, "bscale": 0.9399753623273948}, "lower": [-35.80146652703062, -6.771446995342565, 15.349864715149423, -6.483966351209119, -2.6264554803278912, -31.533081669663027, -32.596155866461814, 17.812088846338362], "upper": [0.45152289207919427, 29.484577185695485, 51.262983455713446, 29.80760553721384, 33.307714540517196, 4.23779218246238, 3.7884020364171, 53.993826022016286], "user_params": {}, "x0": [0.45152289207919427, -6.771446995342565, 15.349864715149423, -6.483966351209119, -2.6264554803278912, 4.23779218246238, 3.7884020364171, 17.812088846338362], "args": {"rhobeg": 1.7812088846338363, "npt": 9}}),
]


def cases(tier, seed):
    out = [dict(i=k, seed=seed, **p) for k, p in enumerate(PINNED)]
    out += [dict(i=len(PINNED) + j, seed=seed) for j in range(N[tier])]
    return out


def setup():
    engine.install_core_monitors()
    engine.install_log_tap()


def make_cfg(seed, i):
    rng = engine.rng_for(seed, NUM, i)
    r = rng.random
    n = int(rng.integers(1, 9))
    if r() < 0.25 and n >= 2:
        m = int(rng.integers(1, n))          # under-determined, full row rank
    else:
        m = n + (int(rng.integers(0, 5)) if r() < 0.8 else 0)
    spec = dict(kind="linear", n=n, m=m, pseed=int(rng.integers(0, 2 ** 31)), cond=float(10.0 ** rng.uniform(0, 3)),
                scale=float(10.0 ** rng.uniform(-1, 1)), bscale=float(10.0 ** rng.uniform(-1, 1)))
    A, b = gen.linear_data(n, m, spec["pseed"], spec["cond"], spec["scale"], spec["bscale"])
    xs = np.linalg.lstsq(A, b, rcond=None)[0]
    mode = int(rng.integers(0, 4))    # 0 unconstrained, 1 box, 2 box+scaling, 3 box + npt
    args = {}
    cfg = dict(prob=spec, lower=None, upper=None, user_params={})
    x0 = xs + rng.normal(size=n) * 10.0 ** rng.uniform(-1, 1)
    if mode >= 1:
        w = 0.5 + rng.random(n) * 3
        c = xs + rng.normal(size=n) * (2.0 if r() < 0.5 else 0.3)
        lo, hi = c - w, c + w
        cfg["lower"], cfg["upper"] = lo.tolist(), hi.tolist()
        x0 = lo + rng.random(n) * (hi - lo)
        u = r()
        if u < 0.2:      # a corner of the box
            x0 = np.where(rng.random(n) < 0.5, lo, hi)
        elif u < 0.4:    # outside the box (solve moves it onto the boundary)
            x0 = x0 + (hi - lo) * rng.normal(size=n) * 1.5
        if mode == 2:
            args["scaling_within_bounds"] = True
            args["rhobeg"] = 0.1
        else:
            args["rhobeg"] = float(min(0.1 * max(np.max(np.abs(x0)), 1.0), 0.49 * np.min(hi - lo)))
    if mode >= 1 and r() < 0.25:
        # wide box with x0 IN A CORNER (every coordinate on one of its bounds) a few units from the unconstrained minimiser:
        # several of those bounds stay active at the solution, steps slide along faces
        x0 = xs + rng.normal(size=n) * float(gen.pick(rng, [1.0, 3.0]))
        width = 2.0 * max(float(np.max(np.abs(x0))), 1.0) + rng.random(n)
        on_upper = rng.random(n) < 0.5
        lo = np.where(on_upper, x0 - width, x0)
        hi = np.where(on_upper, x0, x0 + width)
        cfg["lower"], cfg["upper"] = lo.tolist(), hi.tolist()
        if mode == 2:
            args["rhobeg"] = 0.1
        else:
            args["rhobeg"] = float(min(0.1 * max(np.max(np.abs(x0)), 1.0), 0.49 * np.min(hi - lo)))
    if mode == 3 or r() < 0.3:
        args["npt"] = int(rng.integers(n + 1, 2 * n + 2))
    cfg["x0"] = x0.tolist()
    cfg["args"] = args
    return cfg


def reference(A, b, lo, hi):
    """f* by two independent bounded least-squares methods. Returns (fstar, xstar, certified)."""
    out = []
    for method in ("bvls", "trf"):
        try:
            if method == "bvls" and A.shape[0] < A.shape[1]:
                # bvls needs m >= n for its initialisation; use trf with exact solver and a second tolerance instead
                res = lsq_linear(A, b, bounds=(lo, hi), method="trf", tol=1e-15, lsq_solver="exact", max_iter=2000)
            else:
                res = lsq_linear(A, b, bounds=(lo, hi), method=method, tol=1e-14, lsq_solver="exact", max_iter=2000)
            out.append((2.0 * res.cost, res.x))
        except Exception:
            pass
    if not out:
        return None, None, False
    f = min(o[0] for o in out)
    x = min(out, key=lambda o: o[0])[1]
    agree = len(out) == 2 and abs(out[0][0] - out[1][0]) <= 1e-9 * (1 + f)
    return f, x, agree


def run_case(case):
    res = dict(stats={}, viol=[], nontrivial=[], inconclusive=[])
    st = res["stats"]
    fresh = not case.get("cfg")
    cfg = case.get("cfg") or make_cfg(case["seed"], case["i"])
    case["cfg"] = cfg
    spec = cfg["prob"]
    n, m = spec["n"], spec["m"]
    A, b = gen.linear_data(n, m, spec["pseed"], spec["cond"], spec["scale"], spec["bscale"])
    lo = gen.arr(cfg["lower"], n, -np.inf)
    hi = gen.arr(cfg["upper"], n, np.inf)
    fstar, xstar, certified = reference(A, b, lo, hi)
    if fresh and case["i"] % 2 == 1:
        cfg["args"]["do_logging"] = False      # as most callers run it; nothing in this oracle needs the log
        st["runs_without_logging"] = 1
    run = gen.run_cfg(cfg, timeout=240)
    oracles.common_stats(run, st)
    if run.timeout:
        res["inconclusive"].append("watchdog")
        return res
    if run.exc is not None:
        res["viol"].append(V("exception", "solve raised %r on a linear problem" % (run.exc,), tb=run.tb))
        return res
    if not certified:
        st["reference_uncertified"] = 1
        return res
    s = run.soln
    st["oracle_evaluations"] = 1
    gap = float(s.obj - fstar)
    tol = 1e-6 * (1 + fstar)
    st["mode|%s" % ("unc" if cfg["lower"] is None else ("scaled" if cfg["args"].get("scaling_within_bounds") else "box"))] = 1
    st["shape|%s" % ("under" if m < n else ("square" if m == n else "over"))] = 1
    nact = int(np.sum((np.abs(xstar - lo) <= 1e-9 * (1 + np.abs(lo))) | (np.abs(xstar - hi) <= 1e-9 * (1 + np.abs(hi)))))
    st["active_bounds_at_solution"] = nact
    bv, _ = oracles.box_violations(run, lo, hi, limit=2)
    res["viol"].extend(bv)
    if gap < -1e-9 * (1 + fstar):
        res["inconclusive"].append("dfols objective %r below the reference optimum %r" % (float(s.obj), fstar))
        return res
    if not (gap <= tol):
        res["viol"].append(V("not-optimal", "obj - f* = %.3e > 1e-6(1+f*) = %.3e (f*=%.6g, n=%d, m=%d, cond=%.0f, flag=%d %s, nf=%d)" % (
            gap, tol, fstar, n, m, spec["cond"], s.flag, s.msg[:40], s.nf), gap=gap, fstar=fstar, obj=s.obj, x=s.x, xstar=xstar))
    if s.flag != s.EXIT_SUCCESS:
        nact_ret = int(np.sum((np.asarray(s.x) == lo) | (np.asarray(s.x) == hi)))
        known = None
        if s.flag == s.EXIT_LINALG_ERROR and gap <= tol and nact_ret >= n - 1 and n >= 2:
            known = "optimal-at-near-vertex-but-linalg-flag"
        res["viol"].append(V("no-success-flag", "flag=%d (%s) on a linear problem; gap %.3e, nf=%d, %d of %d bounds active at the returned point" % (
            s.flag, s.msg, gap, s.nf, nact_ret, n), known=known, flag=s.flag, message=s.msg, gap=gap))
    st["worst_gap_over_tol_ppm"] = 0
    if nact > 0 or m != n:
        res["nontrivial"].append(oracles.cfg_hash(cfg))
    if case["i"] % 60 == 0:
        res["sample"] = dict(case=case["i"], n=n, m=m, cond=spec["cond"], lower=cfg["lower"], upper=cfg["upper"], args=cfg["args"],
                             fstar=fstar, obj=float(s.obj), gap=gap, flag=s.flag, nf=s.nf, active_bounds_at_solution=nact)
    return res


def finalize(agg):
    st = agg["stats"]
    reasons = []
    if st.get("oracle_evaluations", 0) < 0.9 * agg["ncases"]:
        reasons.append("oracle decided only %d of %d cases" % (st.get("oracle_evaluations", 0), agg["ncases"]))
    for k in ("shape|under", "shape|square", "shape|over", "mode|unc", "mode|box", "mode|scaled"):
        if st.get(k, 0) < 5:
            reasons.append("class %s exercised only %d times" % (k, st.get(k, 0)))
    cov = dict(objfun_calls=int(st.get("objfun_calls", 0)), oracle_evaluations=int(st.get("oracle_evaluations", 0)),
               reference_uncertified=int(st.get("reference_uncertified", 0)),
               classes={k: int(v) for k, v in st.items() if k.startswith("shape|") or k.startswith("mode|")},
               total_active_bounds_at_solutions=int(st.get("active_bounds_at_solution", 0)))
    return cov, reasons

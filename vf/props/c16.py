"""C16 - interpolation models reproduce their data and survive base shifts (Model driven directly)."""
import numpy as np
from .. import engine, gen, oracles
from ..oracles import V

ID = "C16"
NUM = 16
LEVEL = "exploration"
RULE = ("random Model histories: n, m <= 6, point counts from 2 to 2n+1 (growing, interpolation, regression), spreads over 4 decades, base "
        "points up to 1e4 from the origin, preconditioning on/off; arbitrary interleavings (<= 16 operations) of {fit, Lagrange query, "
        "replace a point, re-evaluate a point at the same location (new residual), add a sample to a point, grow, shift base to xopt / arbitrarily}. After every "
        "fit: interpolation (npt <= n+1) m(y_k) = r_k, regression residual orthogonal to the normalised design columns; at any time "
        "Lagrange L_k(y_j) = delta_kj (npt <= n+1) or sum_k L_k(y_j) = 1 (recomputed from the CURRENT points, so a stale factorisation "
        "shows); across every shift: model values at fixed absolute probes, g, H and absolute point positions unchanged. Tolerance 1e-13 cond(W) max(1, |xbase|/spread) relative. Non-trivial = history "
        "with >= 1 shift taken while xopt is not the base point and >= 1 replacement; distinct by history index")
ASSUMPTIONS = ["tolerances proportional to the conditioning of the point set: faults below 1e-13*cond are invisible",
               "point sets are generated with cond(W) typically < 1e4; fits that dfols itself reports as failed are counted, not judged"]
NHIST = {"quick": 16000, "thorough": 300000}
BATCH = 100
CASE_TIMEOUT = {"quick": 200, "thorough": 600}
NSAMPLES = 4


def cases(tier, seed):
    return [dict(i=b, seed=seed, start=b * BATCH, count=BATCH) for b in range(NHIST[tier] // BATCH)]


def setup():
    pass


def run_history(seed, k, res):
    from dfols.model import Model
    st = res["stats"]
    rng = engine.rng_for(seed, NUM, k)
    n = int(rng.integers(1, 7))
    m = int(rng.integers(1, 7))
    npt = int(rng.integers(n + 1, 2 * n + 2))
    spread = float(10.0 ** rng.uniform(-3, 1))
    far = float(10.0 ** rng.integers(0, 5)) if rng.random() < 0.5 else 1.0
    x0 = rng.normal(size=n) * far
    A = rng.normal(size=(m, n)); b = rng.normal(size=m); Q = rng.normal(size=(m, n)) * 0.3
    f = lambda x: A @ (x - x0) / spread - b + (Q @ ((x - x0) / spread) ** 2)
    xl, xu = -1e20 * np.ones(n), 1e20 * np.ones(n)
    bounded = rng.random() < 0.3
    if bounded:
        # finite box around the base point: some stored steps fall outside it; the Model then reports (and the residuals are
        # evaluated at) the clipped point, and all identities are with respect to those clipped points
        xl = x0 - spread * rng.uniform(0.3, 3.0, size=n)
        xu = x0 + spread * rng.uniform(0.3, 3.0, size=n)
    prec = bool(rng.random() < 0.7)
    M = Model(npt, x0.copy(), f(x0), xl, xu, [], 1, precondition=prec, do_logging=False)
    at = (lambda x: M.as_absolute_coordinates(x))
    ngrow = int(rng.integers(1, npt)) if rng.random() < 0.35 else npt - 1
    for j in range(1, ngrow + 1):
        x = rng.normal(size=n) * spread
        M.change_point(j, x, f(at(x)), j + 1)
    evc = npt + 1
    fitted = False
    ops = []
    nshift_off = nrepl = 0

    def fail(kind, msg, **w):
        res["viol"].append(V(kind, "history %d (n=%d, m=%d, npt=%d/%d, spread %.1e, |xbase| %.1e, precondition %s) after %s: %s" % (
            k, n, m, M.npt(), npt, spread, float(np.linalg.norm(M.xbase)), prec, ops[-6:], msg), **w))

    def geometry():
        p = M.npt()
        D = np.array([M.xpt(j) - M.xopt() for j in range(p)])
        dm = float(np.sqrt(max(np.max(np.sum(D ** 2, axis=1)), 1e-300)))
        W = np.hstack([np.ones((p, 1)), D / dm])
        sv = np.linalg.svd(W, compute_uv=False)
        cond = float(sv[0] / sv[min(p, n + 1) - 1]) if sv[min(p, n + 1) - 1] > 0 else np.inf
        return p, D, cond

    def tol_of(cond):
        return 1e-13 * cond * max(1.0, float(np.linalg.norm(M.xbase)) / spread, far / spread)

    def tol_rel(cond):
        """For identities that involve only the STORED data and the points relative to the base point (interpolation, least squares,
        Lagrange): nothing there may depend on how far the base point is from the origin - only on the conditioning of the set and
        on how far the base point is from the set itself (cancellation in J.(y - xopt) written as J.y - J.xopt)."""
        p_ = M.npt()
        dm_ = float(np.sqrt(max(max(float(np.sum((M.xpt(j) - M.xopt()) ** 2)) for j in range(p_)), 1e-300)))
        off = max(float(np.linalg.norm(M.xpt(j))) for j in range(p_)) / dm_
        return 1e-13 * cond * max(1.0, off)

    def check_lagrange(tag):
        p, D, cond = geometry()
        if not np.isfinite(cond) or cond > 1e8:
            st["skipped_ill_conditioned"] = st.get("skipped_ill_conditioned", 0) + 1
            return True
        try:
            cs, gs = M.lagrange_gradient()
        except Exception as e:
            fail("exception", "lagrange_gradient raised %r" % (e,))
            return False
        L = np.array([[cs[a] + gs[:, a] @ D[j] for j in range(p)] for a in range(p)])
        tol = tol_rel(cond) * 10
        st["lagrange_checks"] = st.get("lagrange_checks", 0) + 1
        if p <= n + 1:
            err = float(np.max(np.abs(L - np.eye(p))))
            if err > tol:
                fail("lagrange", "%s: |L_k(y_j) - delta_kj| = %.3g > %.3g (cond %.1f)" % (tag, err, tol, cond), err=err, tol=tol)
                return False
        else:
            err = float(np.max(np.abs(L.sum(0) - 1)))
            if err > tol:
                fail("lagrange-sum", "%s: |sum_k L_k(y_j) - 1| = %.3g > %.3g (cond %.1f)" % (tag, err, tol, cond), err=err, tol=tol)
                return False
        return True

    nops = int(rng.integers(2, 17))
    for step in range(nops):
        u = rng.random()
        if u < 0.35 or not fitted:
            # ---- fit and check the data are reproduced
            ops.append("fit")
            # the flag combinations the solver itself uses (verbose only with diagnostics on, get_chg_J only with auto-detected restarts)
            fl = int(rng.integers(0, 4))
            full_rank = False
            if M.npt() < n + 1 and rng.random() < 0.5:
                # growing phase: the solver fits with make_full_rank=True by default (singular values of J below a floor are raised;
                # the raised components are orthogonal to the sampled directions, so the data must still be interpolated). The clause
                # is evaluated only when no GENUINE singular value is below the floor (then the perturbation is deliberate): judged on
                # the plain fit made first.
                okp, _a, _b, _c, _d = M.interpolate_mini_models_svd()
                if okp:
                    sv = np.linalg.svd(M.model_jac, compute_uv=False)
                    r_ = min(M.npt() - 1, n, m)
                    if r_ >= 1 and sv[r_ - 1] >= max(1e-6, sv[0] / 1e8) * (1 + 1e-6):
                        full_rank = True
                        st["growing_fits_with_make_full_rank"] = st.get("growing_fits_with_make_full_rank", 0) + 1
            ok, ie, nj, lr, cn = M.interpolate_mini_models_svd(verbose=bool(fl & 1), get_chg_J=bool(fl & 2), make_full_rank=full_rank)
            st["fit_flags|verbose=%d,get_chg_J=%d" % (fl & 1, (fl >> 1) & 1)] = st.get("fit_flags|verbose=%d,get_chg_J=%d" % (fl & 1, (fl >> 1) & 1), 0) + 1
            if not ok:
                st["fit_reported_failure"] = st.get("fit_reported_failure", 0) + 1
                return
            fitted = True
            if not M.factorisation_current:
                pass
            p, D, cond = geometry()
            if not np.isfinite(cond) or cond > 1e8:
                st["skipped_ill_conditioned"] = st.get("skipped_ill_conditioned", 0) + 1
                continue
            Fv = M.fval_v[:p]
            pred = np.array([M.model_value(M.xpt(j), d_based_at_xopt=False, with_const_term=True) for j in range(p)])
            r = Fv - pred
            scaleF = float(np.max(np.abs(Fv))) + 1e-300
            tol = tol_rel(cond)
            st["fits_checked"] = st.get("fits_checked", 0) + 1
            st["regime|%s" % ("growing" if p < n + 1 else ("interpolation" if p == n + 1 else "regression"))] = st.get(
                "regime|%s" % ("growing" if p < n + 1 else ("interpolation" if p == n + 1 else "regression")), 0) + 1
            if p <= n + 1:
                err = float(np.max(np.abs(r))) / scaleF
                if err > tol:
                    fail("interpolation", "model does not reproduce its data: max residual %.3g relative > %.3g (cond %.1f)" % (err, tol, cond), err=err, tol=tol)
                    return
            else:
                Wc = np.hstack([np.ones((p, 1)), D])
                Wn = Wc / np.linalg.norm(Wc, axis=0)
                orth = float(np.max(np.abs(Wn.T @ r))) / scaleF
                if orth > tol * np.sqrt(p):
                    fail("least-squares", "regression residual not orthogonal to the design columns: %.3g > %.3g (cond %.1f)" % (orth, tol * np.sqrt(p), cond), err=orth)
                    return
            if not check_lagrange("after fit"):
                return
        elif u < 0.5:
            ops.append("lagrange")
            if not check_lagrange("query"):
                return
        elif u < 0.75:
            # ---- shift the base point; nothing observable may change
            to_xopt = rng.random() < 0.5
            sh = M.xopt().copy() if to_xopt else rng.normal(size=n) * spread * 3
            ops.append("shift(xopt)" if to_xopt else "shift")
            if float(np.linalg.norm(M.xopt())) > 0:
                nshift_off += 1
            p, D, cond = geometry()
            g1, H1 = M.build_full_model()
            probe = [M.xbase + M.xopt() + rng.normal(size=n) * spread for _ in range(3)]
            v1 = [M.model_value(xx - M.xbase, d_based_at_xopt=False, with_const_term=True) for xx in probe]
            xabs = [M.xpt(j, abs_coordinates=True) for j in range(p)]
            M.shift_base(sh)
            g2, H2 = M.build_full_model()
            v2 = [M.model_value(xx - M.xbase, d_based_at_xopt=False, with_const_term=True) for xx in probe]
            tol = tol_of(min(cond, 1e8)) * 10
            sc = max(float(np.max(np.abs(np.array(v1)))), float(np.max(np.abs(M.fval_v[:p]))), 1e-300)
            dv = max(float(np.max(np.abs(a - c))) for a, c in zip(v1, v2))
            st["shift_checks"] = st.get("shift_checks", 0) + 1
            if dv > tol * sc:
                fail("shift-changes-model-values", "model values at fixed absolute points changed by %.3g relative across a base shift (> %.3g)" % (dv / sc, tol), err=dv / sc)
                return
            gs_ = float(np.max(np.abs(g1))) + float(np.max(np.abs(M.model_jac))) * sc + 1e-300
            if float(np.max(np.abs(g1 - g2))) > tol * gs_ or float(np.max(np.abs(H1 - H2))) > 1e-13 * (float(np.max(np.abs(H1))) + 1e-300):
                fail("shift-changes-gradient", "assembled gradient / Hessian changed across a base shift (|dg| %.3g, |dH| %.3g)" % (
                    float(np.max(np.abs(g1 - g2))), float(np.max(np.abs(H1 - H2)))))
                return
            dp = max(float(np.max(np.abs(M.xpt(j, abs_coordinates=True) - xabs[j]))) for j in range(p))
            if dp > 1e-13 * max(1.0, far, float(np.linalg.norm(M.xbase))):
                fail("shift-moves-points", "absolute point positions moved by %.3g across a base shift" % dp)
                return
        else:
            # ---- replace / re-evaluate / grow
            evc += 1
            if M.npt() < npt and rng.random() < 0.5:
                j = M.npt()
                x = M.xopt() + rng.normal(size=n) * spread
                ops.append("grow")
                M.change_point(j, x, f(at(x)), evc)
            elif rng.random() < 0.15:
                # another sample at an existing point (noise averaging): the stored residual becomes the mean and the incumbent may move
                j = int(rng.integers(M.npt()))
                ops.append("resample(%d)" % j)
                M.add_new_sample(j, f(at(M.points[j, :])) * rng.uniform(0.0, 2.0))
                nrepl += 1
            elif rng.random() < 0.2:
                j = int(rng.integers(M.npt()))
                ops.append("re-evaluate(%d)" % j)
                # same location, new residual (e.g. a re-evaluation of a noisy objective): may move the incumbent
                M.change_point(j, M.points[j, :].copy(), f(at(M.points[j, :])) * rng.uniform(0.0, 1.5), evc)
                nrepl += 1
            else:
                j = int(rng.integers(M.npt()))
                x = M.xopt() + rng.normal(size=n) * spread
                ops.append("replace(%d)" % j)
                M.change_point(j, x, f(at(x)), evc)
                nrepl += 1
            # (the cached-factorisation flag itself is an internal identifier and is not judged: a stale cache shows in the
            #  Lagrange / interpolation identities checked right after, which are recomputed from the current points)
            if rng.random() < 0.5:
                ops.append("lagrange")
                if not check_lagrange("right after a replacement"):
                    return
    st["histories"] = st.get("histories", 0) + 1
    if bounded:
        st["bounded_histories"] = st.get("bounded_histories", 0) + 1
    st["operations"] = st.get("operations", 0) + len(ops)
    if nshift_off >= 1 and nrepl >= 1:
        res["nontrivial"].append("h%d" % k)
    if k % 750 == 0:
        res["sample"] = dict(index=k, n=n, m=m, npt=npt, points_at_start=ngrow + 1, spread=spread, base_norm=float(np.linalg.norm(x0)),
                             precondition=prec, operations=ops)


def run_case(case):
    res = dict(stats={}, viol=[], nontrivial=[], inconclusive=[])
    for k in range(case["start"], case["start"] + case["count"]):
        try:
            with np.errstate(all="ignore"):
                run_history(case["seed"], k, res)
        except Exception as e:
            res["viol"].append(V("exception", "history %d raised %r" % (k, e)))
        if len(res["viol"]) >= 5:
            break
    return res


def finalize(agg):
    st = agg["stats"]
    reasons = []
    if st.get("fits_checked", 0) < 2 * agg["ncases"] * BATCH * 0.5:
        reasons.append("only %d fits checked" % st.get("fits_checked", 0))
    for r in ("growing", "interpolation", "regression"):
        if st.get("regime|" + r, 0) < 100:
            reasons.append("regime %s fitted only %d times" % (r, st.get("regime|" + r, 0)))
    if st.get("shift_checks", 0) < 1000:
        reasons.append("only %d shifts checked" % st.get("shift_checks", 0))
    cov = dict(evaluations=int(st.get("histories", 0)), operations=int(st.get("operations", 0)), fits_checked=int(st.get("fits_checked", 0)),
               lagrange_checks=int(st.get("lagrange_checks", 0)), shift_checks=int(st.get("shift_checks", 0)),
               regimes={k[7:]: int(v) for k, v in st.items() if k.startswith("regime|")},
               bounded_histories=int(st.get("bounded_histories", 0)), skipped_ill_conditioned=int(st.get("skipped_ill_conditioned", 0)), fits_reported_failed=int(st.get("fit_reported_failure", 0)))
    return cov, reasons

"""C02 - evaluation budget and evaluation counters are exact."""
import copy
import numpy as np
from .. import engine, gen, oracles, campaign

ID = "C02"
NUM = 2
LEVEL = "exploration"
RULE = ("(a) random runs over maxfun in {1,2,3,n,n+1,n+2,2n+1,...}, nsamples callbacks (constant, iteration-, rho-, run-dependent, "
        "random incl. 0/negative), noise, soft/hard restarts, regression, growing; (b) budget-index enumeration: for each reference "
        "run, maxfun = 1..nf_ref so the budget expires at every call in turn. Oracle: one linear pass over recorder + log tap + "
        "nsamples-callback history (exact integers, bit-equality of x within a point). A run is non-trivial when the budget test "
        "tripped (nf == maxfun) or a point was sampled more than once; distinct by (configuration hash, maxfun)"
        ' Second session: calling forms (views, residual functions returning lists / one re-used buffer, overwriting or keeping their argument) on a fifth of the runs; seldom-used parameter keys.')
ASSUMPTIONS = ["evaluation / point numbers are those dfols itself reports in the documented log line 'Function eval i at point j'",
               "the recorder and the nsamples recorder observe every call made by solve"]
NREF = {"quick": 120, "thorough": 1500}
NRAND = {"quick": 1000, "thorough": 20000}
CASE_TIMEOUT = {"quick": 300, "thorough": 900}
NSAMPLES = 5


def make_cfg(seed, i, for_ref=False):
    rng = engine.rng_for(seed, NUM, i)
    r = rng.random
    spec = gen.gen_problem(rng, kinds=("linear", "sinlin", "exp", "rosen"), nmax=4 if for_ref else 5, mmax=6, noise_p=0.6)
    n = spec["n"]
    npt = int(rng.integers(n + 1, 2 * n + 2)) if r() < 0.3 else None
    opt = gen.gen_options(rng, n, npt=npt, restarts_p=0.6, allow=("restarts", "regression", "growing", "tols", "rare"))
    up = opt["user_params"]
    cfg = dict(prob=spec, x0=(rng.normal(size=n) * 2).tolist(), lower=None, upper=None, user_params=up)
    if for_ref:
        maxfun = int(gen.pick(rng, [20, 30, 45, 60]))
    else:
        cand = [1, 2, 3, n, n + 1, n + 2, 2 * n + 1, 2 * n + 3, 5, 12, 30, 80, 200]
        maxfun = int(gen.pick(rng, cand))
    args = dict(maxfun=maxfun, rhoend=float(10.0 ** rng.integers(-6, -2)))
    if npt is not None:
        args["npt"] = npt
    if spec.get("noise"):
        args["objfun_has_noise"] = bool(r() < 0.5)
    cfg["args"] = args
    if r() < 0.25:
        # the log line has two branches (whole x printed / 'x = [...]'): drive the second one too
        up["logging.n_to_print_whole_x_vector"] = int(rng.integers(0, n + 1))
    u = r()
    if u < 0.75:
        kind = gen.pick(rng, ["const", "iter", "rho", "nruns", "rand"])
        ns = dict(kind=kind)
        if kind == "const":
            ns["v"] = int(rng.integers(1, 6))
        if kind == "rand":
            ns["seed"] = int(rng.integers(0, 2 ** 31))
        cfg["nsamples"] = ns
    v = r()
    if v < 0.1:
        box = gen.gen_box(rng, n, scaling_p=0.5)
        cfg.update(x0=box["x0"], lower=box["lower"], upper=box["upper"])
        cfg["args"]["rhobeg"] = box["rhobeg"]
        cfg["args"]["rhoend"] = box["rhobeg"] * 1e-4
        if box["scaling"]:
            cfg["args"]["scaling_within_bounds"] = True
    elif v < 0.16 and npt is None and "growing.ndirs_initial" not in up and "restarts.increase_npt" not in up:
        sets, z, margin = gen.gen_convex_sets(rng, n)
        cfg["proj"] = sets
        cfg["x0"] = (z + 0.3 * margin * rng.normal(size=n) / np.sqrt(n)).tolist()
        cfg["args"]["rhobeg"] = float(0.3 * margin)
        cfg["args"]["rhoend"] = float(0.3 * margin * 1e-4)
        up.pop("init.random_initial_directions", None)
        up.pop("init.run_in_parallel", None)
        if for_ref:   # every projected run costs seconds: keep the enumeration short
            cfg["args"]["maxfun"] = min(cfg["args"]["maxfun"], 18)
    elif v < 0.22:
        cfg["reg"] = dict(type="l1", lam=float(10.0 ** rng.uniform(-2, 0)))
        cfg["args"]["maxfun"] = min(cfg["args"]["maxfun"], 30)
    if for_ref and i % 4 == 1 and not cfg.get("proj"):
        # directed: several hard restarts inside the budget, every point sampled 2-4 times (or run-dependent), so that the budget
        # expires at every position of a restart's x0 re-sampling, of its initial set and of its first steps
        up["restarts.use_restarts"] = True
        up["restarts.use_soft_restarts"] = False
        up["restarts.hard.use_old_rk"] = bool(r() < 0.5)
        up.pop("restarts.auto_detect", None)
        up["restarts.max_unsuccessful_restarts"] = 10
        cfg["nsamples"] = dict(kind=gen.pick(rng, ["const", "const", "nruns"]), v=int(rng.integers(2, 5)))
        cfg["args"]["rhoend"] = float(10.0 ** rng.uniform(-2.5, -1)) * float(cfg["args"].get("rhobeg") or 0.1 * max(1.0, float(np.max(np.abs(cfg["x0"])))))
        cfg["args"]["maxfun"] = 60
        cfg.pop("failpoint", None)
    campaign.maybe_failpoint(cfg, rng, p=(0.0 if (for_ref and i % 4 == 1) else 0.1))
    forms = gen.sample_forms(np.random.default_rng([int(seed), NUM, int(i), 5]), p=0.2)     # calling forms: counts must not depend on them
    if forms:
        cfg["_forms"] = forms
    return cfg


def cases(tier, seed):
    out = [dict(i=i, seed=seed, type="budget") for i in range(NREF[tier])]
    out += [dict(i=NREF[tier] + j, seed=seed, type="rand") for j in range(NRAND[tier])]
    return out


def setup():
    engine.install_core_monitors()
    engine.install_log_tap()


def check_run(run, cfg, st, res, tag):
    oracles.common_stats(run, st)
    maxfun = cfg["args"]["maxfun"]
    if run.exc is not None and not run.livelock and not run.timeout:
        return None
    viol, pts = oracles.counting_violations(run, maxfun, run.built.nsamples)
    for v in viol:
        v["msg"] = "[%s maxfun=%d] %s" % (tag, maxfun, v["msg"])
        v["witness"]["maxfun"] = maxfun
    res["viol"].extend(viol)
    st["oracle_passes"] = st.get("oracle_passes", 0) + 1
    st["points_checked"] = st.get("points_checked", 0) + len(pts)
    multi = any(len(v) > 1 for v in pts.values())
    if multi:
        st["runs_with_repeated_samples"] = st.get("runs_with_repeated_samples", 0) + 1
    tripped = (len(run.ctx.calls) == maxfun)
    if tripped:
        st["runs_budget_tripped"] = st.get("runs_budget_tripped", 0) + 1
        fe = oracles.final_exit(run)
        if fe:
            k = "budget_trip_site|%s|%s" % (fe[2], fe[1][:40])
            st[k] = st.get(k, 0) + 1
    if tripped or multi:
        res["nontrivial"].append("%s|%d" % (oracles.cfg_hash(cfg), maxfun))
    if run.livelock:
        res["inconclusive"].append("livelock guard fired (owned by C07/C10)")
    if run.timeout:
        res["inconclusive"].append("watchdog")
    return pts


def run_case(case):
    res = dict(stats={}, viol=[], nontrivial=[], inconclusive=[])
    st = res["stats"]
    if case["type"] == "rand":
        cfg = case.get("cfg") or make_cfg(case["seed"], case["i"])
        case["cfg"] = cfg
        run = gen.run_cfg(cfg, timeout=60)
        check_run(run, cfg, st, res, "rand")
        if case["i"] % 150 == 0:
            res["sample"] = dict(case=case["i"], type="rand", prob=cfg["prob"], args=cfg["args"], user_params=cfg["user_params"],
                                 nsamples=cfg.get("nsamples"), calls=len(run.ctx.calls),
                                 eval_point_pairs=[(e, p) for (e, p, _o) in run.ctx.evalpairs[:25]],
                                 nf=getattr(run.soln, "nf", None), nx=getattr(run.soln, "nx", None),
                                 msg=getattr(run.soln, "msg", None))
        return res
    cfg = case.get("cfg") or make_cfg(case["seed"], case["i"], for_ref=True)
    case["cfg"] = cfg
    ref = gen.run_cfg(cfg, timeout=60)
    check_run(ref, cfg, st, res, "ref")
    nf_ref = len(ref.ctx.calls)
    st["reference_runs"] = 1
    for M in range(1, nf_ref + 1):
        c2 = copy.deepcopy(cfg)
        c2["args"]["maxfun"] = M
        run = gen.run_cfg(c2, timeout=60)
        check_run(run, c2, st, res, "budget-index")
        st["budget_index_runs"] = st.get("budget_index_runs", 0) + 1
    if case["i"] % 20 == 0:
        res["sample"] = dict(case=case["i"], type="budget-index", prob=cfg["prob"], args=cfg["args"],
                             user_params=cfg["user_params"], nsamples=cfg.get("nsamples"), nf_ref=nf_ref,
                             budgets_enumerated=[1, nf_ref])
    return res


def finalize(agg):
    st = agg["stats"]
    reasons = []
    if st.get("oracle_passes", 0) < 0.9 * st.get("runs", 1):
        reasons.append("oracle ran on only %d of %d runs" % (st.get("oracle_passes", 0), st.get("runs", 0)))
    if st.get("log_eval_lines", 0) == 0:
        reasons.append("log tap saw no 'Function eval' line: point numbers unobservable")
    sites = {k.split("|", 1)[1]: v for k, v in st.items() if k.startswith("budget_trip_site|")}
    if len(sites) < 4:
        reasons.append("budget tripped at only %d distinct exit sites" % len(sites))
    if st.get("runs_with_repeated_samples", 0) < 20:
        reasons.append("too few runs with repeated samples")
    cov = dict(evaluations=int(st.get("runs", 0)), objfun_calls=int(st.get("objfun_calls", 0)), budget_trip_sites=sites,
               runs_budget_tripped=int(st.get("runs_budget_tripped", 0)),
               budget_index_runs=int(st.get("budget_index_runs", 0)),
               runs_with_repeated_samples=int(st.get("runs_with_repeated_samples", 0)),
               restarts_seen=dict(soft=int(st.get("soft_restarts", 0)), hard=int(st.get("hard_restarts", 0))),
               option_keys_exercised=sorted(k[4:] for k in st if k.startswith("opt|")))
    return cov, reasons

"""C15 - Dykstra's projection is feasible, near-optimal and respects its stopping rule."""
import numpy as np
from .. import engine, gen, oracles, contracts
from ..oracles import V

ID = "C15"
NUM = 15
LEVEL = "exploration"
RULE = ("contract on the real dykstra with projectors wrapped to count calls (sweeps = calls/p): sweeps <= max_iter; if stopped by "
        "its rule: distance to every set <= sqrt(p*tol)(1+1e-6) and (tol <= 1e-9) within 1e-3 of the true projection computed by an "
        "independent 15-line Dykstra run to 1e-15 and certified by the variational inequality on 60 feasible points; last set a box "
        "=> inside it exactly; a point already in all sets returned within 1e-14(1+|x|). Inputs: n in 1..6, 1-4 balls/half-spaces/"
        "boxes with common interior (margin >= 1e-2), starts near and far (up to 30 set diameters), tolerances {1e-6..1e-14}, "
        "max_iter {3,20,100,1000}. The feasibility / sweep clauses also run in situ on every internal call of convex-constrained "
        "solver runs. Non-trivial = call that needed >= 2 sweeps (start outside at least one set); distinct by input index"
        " Second session: distances and references computed with the harness's own projectors; in-place projectors, projectors sharing one output buffer; geometries scaled by 10..1e4 with starts a relative hair outside a ball under tolerances down to 1e-15.")
ASSUMPTIONS = ["reference projection accepted only if the variational inequality (x0-x*).(z-x*) <= 1e-9 holds on sampled feasible z "
               "(uncertified reference => that clause is not evaluated for the case, counted)",
               "the 1e-3 optimality clause is evaluated for tolerances <= 1e-9 only: for looser tolerances the bound is vacuous "
               "(error ~ sqrt(tol)/sin^2(angle))"]
NDIRECT = {"quick": 20000, "thorough": 200000}
NSITU = {"quick": 60, "thorough": 1500}
BATCH = 100
CASE_TIMEOUT = {"quick": 300, "thorough": 900}
NSAMPLES = 4


def cases(tier, seed):
    nb = NDIRECT[tier] // BATCH
    out = [dict(i=b, seed=seed, type="direct", start=b * BATCH, count=BATCH) for b in range(nb)]
    out += [dict(i=nb + j, seed=seed, type="insitu") for j in range(NSITU[tier])]
    return out


def setup():
    engine.install_core_monitors()
    engine.install_log_tap()


def ref_dykstra(P, x0, sweeps=50000, tol=1e-15):
    """Independent reference (Boyle-Dykstra with correction vectors), run to machine precision. Stops only when the iterate
    AND every correction vector are stationary over a sweep (the iterate alone can stall for many sweeps while the
    corrections still grow - my first version stopped there and was wrong; the certificate below now also guards that)."""
    x = np.array(x0, dtype=float)
    incs = [np.zeros_like(x) for _ in P]
    for it in range(sweeps):
        xprev = x.copy()
        chg = 0.0
        for i, proj in enumerate(P):
            y = x + incs[i]
            xn = proj(y)
            new_inc = y - xn
            chg = max(chg, float(np.linalg.norm(new_inc - incs[i])))
            incs[i] = new_inc
            x = xn
        if max(chg, float(np.linalg.norm(x - xprev))) <= tol * (1 + np.linalg.norm(x)) and it > 5:
            break
    return x


def gen_sets(rng, n, xin, margin):
    sets = []
    for _ in range(int(rng.integers(1, 5))):
        t = int(rng.integers(0, 3))
        if t == 0:
            c = xin + rng.normal(size=n) * rng.uniform(0.1, 2)
            r = np.linalg.norm(xin - c) + margin * rng.uniform(0.5, 2)
            sets.append(dict(type="ball", c=c.tolist(), r=float(r)))
        elif t == 1:
            a = rng.normal(size=n)
            a /= np.linalg.norm(a)
            sets.append(dict(type="half", a=a.tolist(), b=float(a @ xin + margin * rng.uniform(0.5, 2))))
        else:
            l = xin - margin * rng.uniform(0.5, 2, size=n) - rng.random(n) * (rng.random() < 0.5)
            u = xin + margin * rng.uniform(0.5, 2, size=n) + rng.random(n) * (rng.random() < 0.5)
            sets.append(dict(type="box", l=l.tolist(), u=u.tolist()))
    return sets


def check_call(P, sets, x0, x, calls, max_iter, tol, res, tag, xin=None, margin=None, want_ref=True, st=None):
    """All clauses for one observed call. Returns True when the call was stopped by its rule."""
    p = len(P)
    out = res["viol"]
    if sets and len(sets) == len(P):
        # distances and the reference projection are computed with the harness's own projectors for the described sets, never with
        # the callables that were handed to the routine (half of which are the library's pball / pbox - code under test)
        P = [gen.make_projection(s_) for s_ in sets]

    def bad(kind, msg, **w):
        contracts.COUNTS["FAIL:" + kind] += 1
        if len(out) < 8:
            out.append(V(kind, "%s: %s" % (tag, msg), sets=sets, x0=x0, x=x, max_iter=max_iter, tol=tol, **w))
    contracts.COUNTS["dykstra.sweep-count"] += 1
    sweeps = calls // p if p else 0
    if p and calls > max_iter * p:     # (calls % p != 0 would only mean a sweep skipped a projector: not what the property forbids)
        bad("dykstra.sweep-count", "%d projector calls for p=%d sets, max_iter=%d (%.2f sweeps)" % (calls, p, max_iter, calls / p))
    if not np.all(np.isfinite(x)):
        if np.all(np.isfinite(x0)):
            bad("dykstra.finite", "non-finite result for a finite start")
        return False
    by_rule = sweeps < max_iter
    if sets and sets[-1]["type"] == "box":
        contracts.COUNTS["dykstra.last-box-exact"] += 1
        l, u = np.array(sets[-1]["l"]), np.array(sets[-1]["u"])
        if np.any(x < l) or np.any(x > u):
            bad("dykstra.last-box-exact", "result outside the last (box) set by %.3g" % float(max(np.max(l - x), np.max(x - u))))
    if by_rule:
        contracts.COUNTS["dykstra.feasible-when-stopped-by-rule"] += 1
        dist = max(float(np.linalg.norm(x - q(x))) for q in P) if P else 0.0
        lim = np.sqrt(p * tol) * (1 + 1e-6) + 1e-14 * (1 + float(np.linalg.norm(x)))
        if dist > lim:
            bad("dykstra.feasible-when-stopped-by-rule", "stopped by rule after %d sweeps but %.3g from a set (> sqrt(p*tol) = %.3g)" % (sweeps, dist, np.sqrt(p * tol)),
                dist=dist, sweeps=sweeps)
        if want_ref and tol <= 1e-9 and xin is not None:
            xs = ref_dykstra(P, x0)
            # certificate: variational inequality of the projection onto the intersection
            rng = np.random.default_rng(12345)
            feas = max(float(np.linalg.norm(xs - q(xs))) for q in P)
            sc = 1 + float(np.linalg.norm(x0 - xs)) * (1 + float(np.linalg.norm(xs - xin)))
            ok = feas <= 1e-12 * (1 + float(np.linalg.norm(xs)))
            for _ in range(60):
                u = rng.normal(size=len(xin))
                z = xin + margin * 0.49 * rng.random() * u / np.linalg.norm(u)
                if rng.random() < 0.5:
                    lam = rng.random()
                    z = lam * z + (1 - lam) * xs
                if float((x0 - xs) @ (z - xs)) > 1e-9 * sc:
                    ok = False
                    break
            # no observed feasible point may be closer to x0 than the reference (guards a reference that stalled)
            xfeas = max(float(np.linalg.norm(x - q(x))) for q in P)
            if xfeas <= 1e-9 and float(np.linalg.norm(xs - x0)) > float(np.linalg.norm(x - x0)) + 1e-9 * (1 + float(np.linalg.norm(x - x0))) + xfeas:
                ok = False
            if not ok:
                contracts.COUNTS["dykstra.reference-uncertified"] += 1
            else:
                contracts.COUNTS["dykstra.near-optimal"] += 1
                err = float(np.linalg.norm(x - xs))
                if st is not None:
                    b = "err<1e%d" % int(np.ceil(np.log10(max(err, 1e-17))))
                    st[b] = st.get(b, 0) + 1
                if err > 1e-3:
                    bad("dykstra.near-optimal", "stopped by rule (tol %.0e, %d sweeps) but %.3g from the true projection" % (tol, sweeps, err),
                        err=err, ref=xs)
    return by_rule


def scaled_set(s_, S):
    t = dict(s_)
    if t["type"] == "ball":
        t["c"] = (np.array(t["c"]) * S).tolist(); t["r"] = float(t["r"]) * S
    elif t["type"] == "half":
        t["b"] = float(t["b"]) * S
    else:
        t["l"] = (np.array(t["l"]) * S).tolist(); t["u"] = (np.array(t["u"]) * S).tolist()
    return t


def run_direct(case, res):
    import dfols.util as du
    dyk = engine.ORIGINALS.get("dykstra") or du.dykstra
    st = res["stats"]
    for k in range(case["start"], case["start"] + case["count"]):
        rng = engine.rng_for(case["seed"], NUM, k)
        n = int(rng.integers(1, 7))
        xin = rng.normal(size=n)
        margin = float(10.0 ** rng.uniform(-2, 0))
        sets = gen_sets(rng, n, xin, margin)
        if rng.random() < 0.5:
            sets.append(dict(type="box", l=(xin - margin - rng.random(n)).tolist(), u=(xin + margin + rng.random(n)).tolist()))
        P0 = [gen.make_projection(s) for s in sets]
        if k % 2 == 1:
            # the projectors the library itself ships (util.pball / util.pbox) for the balls and boxes: what a user writes
            # `lambda x: pball(x, c, r)` with, and what solve() wraps the bounds in
            P0 = [(lambda w, c=np.array(s_["c"]), r=float(s_["r"]): du.pball(w, c, r)) if s_["type"] == "ball" else
                  ((lambda w, l=np.array(s_["l"]), u=np.array(s_["u"]): du.pbox(w, l, u)) if s_["type"] == "box" else q)
                  for s_, q in zip(sets, P0)]
            st["direct_calls_with_library_projectors"] = st.get("direct_calls_with_library_projectors", 0) + 1
        x0 = xin + rng.normal(size=n) * float(10.0 ** rng.uniform(-2, 1.5))
        g3 = engine.rng_for(case["seed"], NUM, k, 9)      # own stream for the variations below
        if k % 6 == 5:
            # the same geometry 10..1e4 times larger (radii of 1e2..1e4: a relative slack inside a projector then exceeds sqrt(p*tol)),
            # started a hair outside one of the sets
            S = float(10.0 ** g3.uniform(1, 4))
            sets = [scaled_set(s_, S) for s_ in sets]
            xin, margin = xin * S, margin * S
            P0 = [gen.make_projection(s_) for s_ in sets]
            if k % 2 == 1:
                P0 = [(lambda w, c=np.array(s_["c"]), r=float(s_["r"]): du.pball(w, c, r)) if s_["type"] == "ball" else
                      ((lambda w, l=np.array(s_["l"]), u=np.array(s_["u"]): du.pbox(w, l, u)) if s_["type"] == "box" else q)
                      for s_, q in zip(sets, P0)]
            x0 = x0 * S
            j = int(g3.integers(len(sets)))
            y = gen.make_projection(sets[j])(xin + (x0 - xin) * 50.0)          # a point on (or in) set j, far out along a ray
            out = y - xin
            hair_tol = None
            if np.linalg.norm(out) > 0:
                off = float(10.0 ** g3.uniform(-9, -4)) * S
                if sets[j]["type"] == "ball" and g3.random() < 0.6:
                    # outside the ball by a relative hair (1e-10.5 .. 1e-8.2 of the radius) that is still far above sqrt(p*tol) for a tight tol
                    off = float(sets[j]["r"]) * float(10.0 ** g3.uniform(-10.5, -8.2))
                    hair_tol = float(gen.pick(g3, [1e-13, 1e-14, 1e-15]))
                x0 = y + out / np.linalg.norm(out) * off
            st["direct_calls_scaled_geometry"] = st.get("direct_calls_scaled_geometry", 0) + 1
        tol = float(gen.pick(rng, [1e-10, 1e-10, 1e-9, 1e-12, 1e-14, 1e-8, 1e-6]))
        if k % 6 == 5 and hair_tol is not None:
            tol = hair_tol
        mi = int(gen.pick(rng, [100, 100, 20, 1000, 3]))
        use_defaults = bool(k % 5 == 2)       # call without tol / max_iter: the documented defaults (1e-10, 100) are the yardstick
        if use_defaults:
            tol, mi = 1e-10, 100
            st["direct_calls_with_default_tolerance"] = st.get("direct_calls_with_default_tolerance", 0) + 1
        ncalls = [0]
        inplace = bool(k % 7 == 3)
        sharedbuf = bool(k % 7 == 5)       # every projector writes its result into ONE preallocated buffer and returns that buffer
        outbuf = np.zeros(n)
        if sharedbuf:
            st["direct_calls_with_shared_output_buffer"] = st.get("direct_calls_with_shared_output_buffer", 0) + 1
        if inplace:
            # exact projectors that overwrite the vector they are handed and return it (np.clip(w, l, u, out=w) is the everyday
            # example): the routine owns every vector it passes to a projector, so this must not change anything
            st["direct_calls_with_inplace_projectors"] = st.get("direct_calls_with_inplace_projectors", 0) + 1

        def wrap(q):
            def w(v):
                ncalls[0] += 1
                if inplace:
                    v[...] = q(v.copy())
                    return v
                if sharedbuf:
                    outbuf[...] = q(v)
                    return outbuf
                return q(v)
            return w
        try:
            x = dyk([wrap(q) for q in P0], x0.copy()) if use_defaults else dyk([wrap(q) for q in P0], x0.copy(), max_iter=mi, tol=tol)
        except Exception as e:
            res["viol"].append(V("exception", "dykstra raised %r on input %d" % (e, k)))
            continue
        st["direct_calls"] = st.get("direct_calls", 0) + 1
        by_rule = check_call(P0, sets, x0, x, ncalls[0], mi, tol, res, "input %d (n=%d, p=%d)" % (k, n, len(sets)), xin=xin, margin=margin, st=st)
        st["stopped_by_rule" if by_rule else "hit_sweep_cap"] = st.get("stopped_by_rule" if by_rule else "hit_sweep_cap", 0) + 1
        if ncalls[0] >= 2 * len(sets):
            res["nontrivial"].append("d%d" % k)
        # a point already in all sets is returned unchanged up to rounding
        contracts.COUNTS["dykstra.feasible-start-unchanged"] += 1
        xi = dyk(P0, xin.copy(), max_iter=mi, tol=tol)
        # "unchanged up to rounding": a projector such as c + 1.0*(x - c) rounds at the magnitude of the SET's coordinates (centre,
        # faces), which in the scaled geometries is far above that of the point
        mag = 1.0 + float(np.linalg.norm(xin))
        for s_ in sets:
            if s_["type"] == "ball":
                mag = max(mag, float(np.linalg.norm(s_["c"])) + float(s_["r"]))
            elif s_["type"] == "box":
                fin = [abs(v) for v in list(s_["l"]) + list(s_["u"]) if np.isfinite(v) and abs(v) < 1e19]
                mag = max([mag] + fin)
            else:
                mag = max(mag, abs(float(s_["b"])))
        if np.linalg.norm(xi - xin) > 1e-14 * mag * np.sqrt(n):
            contracts.COUNTS["FAIL:dykstra.feasible-start-unchanged"] += 1
            res["viol"].append(V("dykstra.feasible-start-unchanged", "input %d: a point inside all sets moved by %.3g" % (k, float(np.linalg.norm(xi - xin))),
                                 sets=sets, xin=xin, out=xi))
        # the caller's start vector must not be modified
        x0c = x0.copy()
        dyk(P0, x0c, max_iter=3, tol=tol)
        if not np.array_equal(x0c, x0):
            res["viol"].append(V("dykstra.start-mutated", "input %d: dykstra modified its x0 argument" % k))
        if k % 1500 == 0:
            res["sample"] = dict(kind="direct", index=k, n=n, sets=sets, x0=x0, tol=tol, max_iter=mi, sweeps=ncalls[0] // len(sets), result=x)


def make_situ_cfg(seed, i):
    rng = engine.rng_for(seed, NUM, i, 2)
    spec = gen.gen_problem(rng, kinds=("linear", "sinlin", "rosen"), nmax=3, mmax=5)
    n = spec["n"]
    sets, z, margin = gen.gen_convex_sets(rng, n, nsets=int(rng.integers(1, 4)))
    cfg = dict(prob=spec, user_params={}, lower=None, upper=None, proj=sets)
    cfg["x0"] = (z + margin * rng.normal(size=n) * float(10.0 ** rng.uniform(-1, 0.5))).tolist()
    cfg["args"] = dict(rhobeg=float(0.3 * margin), rhoend=float(0.3 * margin * 1e-5), maxfun=int(gen.pick(rng, [15, 25])))
    if rng.random() < 0.5:
        cfg["user_params"]["dykstra.d_tol"] = float(gen.pick(rng, [1e-8, 1e-12]))
    if rng.random() < 0.4:
        cfg["user_params"]["dykstra.max_iters"] = int(gen.pick(rng, [20, 500]))
    if rng.random() < 0.4:
        x0 = np.array(cfg["x0"])
        cfg["lower"] = (z - margin * (1 + rng.random(n))).tolist()
        cfg["upper"] = (z + margin * (1 + rng.random(n))).tolist()
    return cfg


def run_insitu(case, res):
    st = res["stats"]
    engine.install_dykstra_logger()
    cfg = case.get("cfg") or make_situ_cfg(case["seed"], case["i"])
    case["cfg"] = cfg
    ctx = engine.Ctx()
    counters = dict(n=0, rule=0)

    # the sets as the harness describes them (user sets, then the bound box the solver appends): calls made with exactly that list -
    # every evaluation point comes from one - are judged with the harness's own projectors, not with the callables in the list
    own_sets = list(cfg.get("proj") or [])
    if cfg.get("lower") is not None or cfg.get("upper") is not None:
        nn = cfg["prob"]["n"]
        own_sets.append(dict(type="box", l=gen.arr(cfg.get("lower"), nn, -1e20).tolist(), u=gen.arr(cfg.get("upper"), nn, 1e20).tolist()))

    def hook(info):
        counters["n"] += 1
        described = own_sets if (len(info["P"]) == len(own_sets) and info["mod"].endswith("model")) else []
        if described:
            counters["own"] = counters.get("own", 0) + 1
        by_rule = check_call(info["P"], described, info["x0"], info["out"], info["calls"], info["max_iter"], info["tol"], res,
                             "in situ %s:%d" % (info["mod"], info["line"]), want_ref=False)
        counters["rule"] += int(by_rule)
    ctx.dykstra_hook = hook
    run = gen.run_cfg(cfg, ctx=ctx, timeout=200)
    oracles.common_stats(run, st)
    st["insitu_calls"] = counters["n"]
    st["insitu_stopped_by_rule"] = counters["rule"]
    st["insitu_calls_judged_with_own_projectors"] = counters.get("own", 0)
    if run.timeout:
        res["inconclusive"].append("watchdog")
    if counters["n"]:
        res["nontrivial"].append("s" + oracles.cfg_hash(cfg))
    if case["i"] % 25 == 0:
        res["sample"] = dict(kind="insitu", case=case["i"], proj=cfg["proj"], args=cfg["args"], user_params=cfg["user_params"],
                             dykstra_calls_observed=counters["n"], stopped_by_rule=counters["rule"])


def run_case(case):
    res = dict(stats={}, viol=[], nontrivial=[], inconclusive=[])
    before = dict(contracts.COUNTS)
    (run_direct if case["type"] == "direct" else run_insitu)(case, res)
    for k, v in contracts.COUNTS.items():
        dv = v - before.get(k, 0)
        if dv:
            res["stats"]["contract|" + k] = dv
    return res


def finalize(agg):
    st = agg["stats"]
    reasons = []
    need = {"contract|dykstra.near-optimal": 1500, "contract|dykstra.feasible-when-stopped-by-rule": 3000,
            "contract|dykstra.last-box-exact": 1000, "hit_sweep_cap": 100, "insitu_calls": 10000}
    if agg["tier"] == "quick":
        for k, v in need.items():
            if st.get(k, 0) < v:
                reasons.append("%s: only %d (< %d)" % (k, st.get(k, 0), v))
    unc = st.get("contract|dykstra.reference-uncertified", 0)
    if unc > 0.05 * max(1, st.get("contract|dykstra.near-optimal", 0)):
        reasons.append("%d reference projections uncertified" % unc)
    cov = dict(evaluations=int(st.get("direct_calls", 0) + st.get("insitu_calls", 0)),
               clause_evaluations={k[9:]: int(v) for k, v in st.items() if k.startswith("contract|")},
               direct_calls=int(st.get("direct_calls", 0)), stopped_by_rule=int(st.get("stopped_by_rule", 0)),
               hit_sweep_cap=int(st.get("hit_sweep_cap", 0)), in_situ_calls=int(st.get("insitu_calls", 0)),
               in_situ_stopped_by_rule=int(st.get("insitu_stopped_by_rule", 0)),
               error_histogram={k: int(v) for k, v in st.items() if k.startswith("err<")})
    return cov, reasons

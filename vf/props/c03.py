"""C03 - the returned solution is a point that was really evaluated."""
import copy
import numpy as np
from .. import engine, gen, oracles, campaign
from ..oracles import V

ID = "C03"
NUM = 3
LEVEL = "exploration"
RULE = ("random runs over the option space (noise, averaging, scaling, regulariser, projections, soft/hard restarts, growing, "
        "regression) plus, per reference run, the budget-index (maxfun = 1..nf_ref) and exit-index (model.abs_tol placed at every "
        "running-minimum call) enumerations, exit-at-x0 cases, one-shot NaN faults and the failpoint enumeration (LinAlgError in the "
        "Lagrange solve / 'model increases' verdict in the acceptance test at calls spread over a reference run). Oracle at end of run AND at every iteration "
        "(hook on the once-per-iteration model fit) for the incumbent and the saved slot: named point exists in the history, x "
        "matches the recorded x, residual is bit-identical to the recorded vector (mean of samples under averaging), "
        "obj == sum(resid^2)+h(x). Non-trivial/distinct = (exit site, restart mode, averaging?) triples x configuration hash "
        "of runs whose end-of-run oracle ran"
        ' Second session: a fifth of the un-averaged references un-logged (evaluation k = point k); batch initialisation with a residual function that returns one re-used buffer; calling forms sampled.')
ASSUMPTIONS = ["point numbers are those dfols reports in its log line; x tolerance 1e-12*(1+|x|+|bounds|) (2*sqrt(p*tol) with "
               "projections, where the stored point is re-projected)",
               "residual vectors of distinct evaluations are bit-different (checked per run; ambiguous runs are counted)"]
NENUM = {"quick": 70, "thorough": 1500}
NRAND = {"quick": 700, "thorough": 16000}
NX0 = {"quick": 120, "thorough": 1500}
NFAULT = {"quick": 120, "thorough": 2500}
NREGGROW = {"quick": 120, "thorough": 2500}
NFAILPT = {"quick": 50, "thorough": 900}
CASE_TIMEOUT = {"quick": 300, "thorough": 900}
NSAMPLES = 5
MIN_TRIPLES = {"quick": 25, "thorough": 40}


def cases(tier, seed):
    out = []
    i = 0
    for t, n in (("enum", NENUM[tier]), ("rand", NRAND[tier]), ("x0exit", NX0[tier]), ("fault", NFAULT[tier]), ("reggrow", NREGGROW[tier]),
                 ("failpt", NFAILPT[tier])):
        for _ in range(n):
            out.append(dict(i=i, seed=seed, type=t))
            i += 1
    return out


def setup():
    engine.install_core_monitors()
    engine.install_log_tap()
    engine.install_failpoints()


def make_cfg(seed, i, typ):
    rng = engine.rng_for(seed, NUM, i)
    if typ == "enum":
        cfg = campaign.gen_cfg(rng, maxfuns=(20, 30, 45), nmax=3, proj_p=0.05, reg_p=0.06, restarts_p=0.55)
        if cfg.get("proj") or cfg.get("reg"):
            cfg["args"]["maxfun"] = min(cfg["args"]["maxfun"], 18)
        if i % 6 == 4 and not cfg.get("proj"):
            # parallel initialisation (all initial points evaluated before any is processed): the exit-index enumeration then ends
            # the run at each of the initial points in turn, with better points evaluated after it
            cfg["user_params"]["init.random_initial_directions"] = True
            cfg["user_params"]["init.run_in_parallel"] = True
            cfg["user_params"].pop("growing.ndirs_initial", None)
            cfg["args"].pop("npt", None)
            if i % 12 == 4:
                # the batch is evaluated before any of it is stored: a residual function that returns one re-used buffer must
                # not end up with every stored point carrying the last evaluation's values
                cfg["_forms"] = ["ret_samebuf"]
        if i % 3 == 2:
            # budget / exit enumeration over a long growing phase (its safety steps evaluate points and can end or restart the run)
            cfg = campaign.long_growing_cfg(rng, deterministic=False)
    elif typ == "rand":
        cfg = campaign.gen_cfg(rng, restarts_p=0.5)
    elif typ == "x0exit":
        cfg = campaign.gen_cfg(rng, term_p=0.0, restarts_p=0.4, averaging_p=0.5)
        if rng.random() < 0.6:
            cfg["user_params"]["model.abs_tol"] = 1e6
        else:
            cfg["args"]["maxfun"] = int(rng.integers(1, 4))
            cfg["nsamples"] = dict(kind="const", v=int(rng.integers(2, 6)))
    elif typ == "failpt":
        # reference run for the failpoint enumeration (see campaign.failpoint_cfgs): restart-heavy, with averaging and noise
        cfg = campaign.gen_cfg(rng, restarts_p=0.85, term_p=0.0, reg_p=0.08, proj_p=0.0, maxfuns=(30, 50, 80), nmax=3, npt_p=0.5,
                               allow=("restarts", "regression", "growing", "rare"), averaging_p=0.3, noise_p=0.3)
        if cfg.get("reg"):
            cfg["args"]["maxfun"] = min(cfg["args"]["maxfun"], 25)
        if i % 4 == 1:
            cfg = campaign.growing_restart_variant(cfg, rng, nan_fault=bool(i % 8 == 1))
        elif i % 4 == 2:
            # linear-algebra failures inside the safety steps of a long growing phase, with soft restarts on: the restart
            # branches of the growing-phase code
            cfg = campaign.long_growing_cfg(rng, deterministic=False, safety=gen.pick(rng, ["full_geom_step", "full_geom_step", "default", "reduce_delta"]))
            cfg["user_params"]["restarts.use_restarts"] = True
            cfg["user_params"].pop("restarts.use_soft_restarts", None)
            if i % 8 == 2:
                cfg["user_params"]["growing.num_new_dirns_each_iter"] = int(rng.integers(2, 4))   # the set can fill up half-way through
    elif typ == "reggrow":
        # regulariser + bounds + growing / random-direction options: stored raw points can lie outside the box while the objective
        # is evaluated at the clipped point (found by the C17 in-situ slot check: h was added at the raw point)
        n = int(rng.integers(2, 5))
        spec = gen.gen_problem(rng, kinds=("linear", "sinlin", "rosen"), n=n, m=int(rng.integers(n, n + 3)))
        box = gen.gen_box(rng, n, scaling_p=0.0, one_sided_p=0.0, place_p=0.6)
        up = {"growing.ndirs_initial": int(rng.integers(1, n)), "growing.num_new_dirns_each_iter": int(rng.integers(0, 3))}
        if rng.random() < 0.3:
            up["growing.do_geom_steps"] = True
        cfg = dict(prob=spec, x0=box["x0"], lower=[v if v is not None else -5.0 for v in box["lower"]],
                   upper=[v if v is not None else 5.0 for v in box["upper"]], user_params=up,
                   args=dict(maxfun=int(rng.integers(3, 14)), rhobeg=box["rhobeg"], rhoend=box["rhobeg"] * 1e-4),
                   reg=dict(type=gen.pick(rng, ["l1", "l2"]), lam=float(10.0 ** rng.uniform(-1, 0.5))))
    else:
        cfg = campaign.gen_cfg(rng, restarts_p=0.5, term_p=0.1, reg_p=0.04, proj_p=0.04)
        cfg["faults"] = {str(int(rng.integers(2, 35))): "nan"}
    return cfg


def user_x(model_x, b, cfg):
    """Internal (possibly scaled) coordinates -> user coordinates, computed independently of dfols."""
    if cfg["args"].get("scaling_within_bounds"):
        return np.minimum(b.lo + model_x * (b.hi - b.lo), b.hi)
    return model_x


def xtol(b, cfg, x):
    if cfg.get("proj"):
        p = len(cfg["proj"]) + 1
        return 2.0 * np.sqrt(p * 1e-10) * (1 + np.max(np.abs(x)))
    fin = np.concatenate([b.lo[np.isfinite(b.lo)], b.hi[np.isfinite(b.hi)], [0.0]])
    return 1e-12 * (1 + np.max(np.abs(x)) + np.max(np.abs(fin)))


def slot_check(name, t, x_user, r, obj, nsamp, b, cfg, where, out, st):
    """The three relations of C03 for one (x, r, obj) triple against history point t."""
    st["slot_checks"] = st.get("slot_checks", 0) + 1
    if not campaign.same(x_user, t["x"], atol=xtol(b, cfg, t["x"])):
        out.append(V("x-mismatch", "%s %s: x differs from recorded point by %.3g" % (where, name, float(np.max(np.abs(x_user - t["x"])))),
                     x=x_user, recorded=t["x"]))
    rbar = campaign.PointTable.rbar(t)
    if len(t["rs"]) == 1:
        ok = campaign.same(r, rbar)
    else:
        ok = campaign.same(r, rbar, rtol=1e-12, atol=1e-12 * (1 + float(np.max(np.abs(np.nan_to_num(rbar, posinf=0, neginf=0))))))
    if not ok:
        with np.errstate(all="ignore"):
            d = float(np.nanmax(np.abs(np.asarray(r, dtype=float) - rbar))) if np.shape(r) == np.shape(rbar) else float("nan")
        out.append(V("resid-mismatch", "%s %s: residual is not the %s recorded at that point (max diff %.3g)" % (
            where, name, "vector" if len(t["rs"]) == 1 else "mean of the %d vectors" % len(t["rs"]), d),
            resid=r, recorded_mean=rbar, nsamples_recorded=len(t["rs"]), nsamples_claimed=nsamp))
    with np.errstate(all="ignore"):
        want = float(np.dot(r, r))
        if b.h is not None:
            want += float(b.h_raw(x_user))
    if not campaign.same(obj, want, rtol=1e-11, atol=1e-300):
        out.append(V("obj-mismatch", "%s %s: obj=%r but sum(resid^2)+h(x)=%r" % (where, name, float(obj), want), obj=obj, want=want))


def make_hook(state):
    def hook(model):
        cfg, b, out, st, tab = state["cfg"], state["b"], state["viol"], state["st"], state["tab"]
        if len(out) >= 6:
            return
        st["iter_hooks"] = st.get("iter_hooks", 0) + 1
        where = "iteration %d (after %d calls)" % (state["ctx"].iters, len(state["ctx"].calls))
        k = int(model.eval_num[model.kopt])
        t = tab.get(k)
        if t is None:
            out.append(V("incumbent-names-unknown-point", "%s: incumbent claims evaluation point %d, not in the history" % (where, k), k=k))
        else:
            slot_check("incumbent (point %d)" % k, t, user_x(model.xopt(abs_coordinates=True), b, cfg), model.ropt().copy(),
                       model.objopt(), int(model.nsamples[model.kopt]), b, cfg, where, out, st)
        if model.objsave is not None:
            ks = model.eval_num_save
            t = tab.get(ks) if ks is not None else None
            if t is None:
                out.append(V("saved-names-unknown-point", "%s: saved slot claims evaluation point %r, not in the history" % (where, ks), k=ks))
            else:
                slot_check("saved slot (point %d)" % ks, t, user_x(model.xsave, b, cfg), model.rsave, model.objsave,
                           model.nsamples_save, b, cfg, where, out, st)
    return hook


def final_check(run, cfg, out, st):
    s = run.soln
    b = run.built
    if s is None or s.flag == s.EXIT_INPUT_ERROR:
        return False
    tab = campaign.PointTable(run.ctx)
    k = s.xmin_eval_num
    st["final_checks"] = st.get("final_checks", 0) + 1
    t = tab.get(k) if k is not None and np.ndim(k) == 0 else None
    if t is None:
        out.append(V("xmin_eval_num-not-a-point", "soln.xmin_eval_num=%r is not a point number of the history (points 1..%s)" % (
            k, max(tab.update()) if tab.update() else 0), xmin_eval_num=k, flag=s.flag, message=s.msg))
        return True
    slot_check("soln (xmin_eval_num=%d)" % k, t, np.asarray(s.x, dtype=float), np.asarray(s.resid, dtype=float), s.obj, None, b, cfg,
               "end of run [%s]" % s.msg[:50], out, st)
    return True


def one_run(cfg, res, tag):
    st = res["stats"]
    ctx = engine.Ctx()
    b_holder = {}
    state = dict(cfg=cfg, viol=[], st=st, ctx=ctx, tab=campaign.PointTable(ctx))
    # build first so the hook can see h and the box
    built = gen.build(cfg, ctx)
    state["b"] = built
    ctx.iter_hook = make_hook(state)
    run = gen.run_cfg(cfg, ctx, timeout=60, built=built)
    oracles.common_stats(run, st)
    viol = state["viol"]
    if run.exc is None:
        did = final_check(run, cfg, viol, st)
        # ambiguity check: distinct evaluations must have bit-different residual vectors for identity by bit-equality
        if did:
            fe = oracles.final_exit(run)
            mode = campaign.restart_mode(cfg)
            avg = bool(cfg.get("nsamples"))
            if fe:
                triple = "%s|%s|%s|%s" % (fe[2], fe[1][:30], mode, "avg" if avg else "single")
                st["triple|" + triple] = st.get("triple|" + triple, 0) + 1
                res["nontrivial"].append(triple + "|" + oracles.cfg_hash(cfg))
    elif run.livelock:
        res["inconclusive"].append("livelock guard fired (owned by C07/C10)")
    elif run.timeout:
        res["inconclusive"].append("watchdog")
    for v in viol:
        v["msg"] = "[%s] %s" % (tag, v["msg"])
    res["viol"].extend(viol[:6])
    return run


def run_case(case):
    res = dict(stats={}, viol=[], nontrivial=[], inconclusive=[])
    typ = case["type"]
    cfg = case.get("cfg") or make_cfg(case["seed"], case["i"], typ)
    if not case.get("cfg") and case["i"] % 5 == 2 and not cfg.get("nsamples"):
        # a fifth of the un-averaged references (and everything derived from them) run with do_logging=False, as most callers do:
        # evaluation k is then point k, so the identity of the returned point is decidable without the log
        gen.without_logging(cfg)
        res["stats"]["references_without_logging"] = 1
    case["cfg"] = cfg
    ref = one_run(cfg, res, typ)
    nder = 0
    if typ == "enum" and ref.exc is None:
        h = ref.built.h_raw if ref.built.h is not None else None
        for c2 in campaign.budget_index_cfgs(cfg, ref, max_cases=(60 if cfg.get("_variant") else 16)) + campaign.exit_index_cfgs(cfg, ref, h=h, max_cases=(30 if cfg.get("_variant") else 16)):
            one_run(c2, res, "%s %s" % (c2["_derived"]["kind"], c2["_derived"].get("M", c2["_derived"].get("j"))))
            nder += 1
            res["stats"]["derived|" + c2["_derived"]["kind"]] = res["stats"].get("derived|" + c2["_derived"]["kind"], 0) + 1
    if typ == "failpt" and ref.exc is None:
        for c2 in campaign.failpoint_cfgs(cfg, ref, max_lagrange=(25 if cfg.get("_variant", "").startswith("long-growing") else 7), max_ratio=7):
            r2 = one_run(c2, res, "%s %d of %d" % (c2["_derived"]["kind"], c2["_derived"]["j"], c2["_derived"]["of"]))
            nder += 1
            k = "derived|" + c2["_derived"]["kind"]
            res["stats"][k] = res["stats"].get(k, 0) + 1
    if case["i"] % 60 == 0:
        s = ref.soln
        res["sample"] = dict(case=case["i"], type=typ, prob=cfg["prob"], args=cfg["args"], user_params=cfg["user_params"],
                             nsamples=cfg.get("nsamples"), derived_runs=nder, calls=len(ref.ctx.calls),
                             xmin_eval_num=getattr(s, "xmin_eval_num", None), msg=getattr(s, "msg", None),
                             iterations_hooked=ref.ctx.iters)
    return res


def finalize(agg):
    st = agg["stats"]
    reasons = []
    triples = {k[7:]: v for k, v in st.items() if k.startswith("triple|")}
    if len(triples) < MIN_TRIPLES[agg["tier"]]:
        reasons.append("only %d distinct (exit site, restart mode, averaging) triples reached (< %d)" % (len(triples), MIN_TRIPLES[agg["tier"]]))
    if st.get("iter_hooks", 0) < 1000:
        reasons.append("per-iteration hook fired only %d times" % st.get("iter_hooks", 0))
    if st.get("final_checks", 0) < 0.85 * st.get("runs", 1):
        reasons.append("end-of-run oracle ran on %d of %d runs" % (st.get("final_checks", 0), st.get("runs", 0)))
    cov = dict(evaluations=int(st.get("runs", 0)), objfun_calls=int(st.get("objfun_calls", 0)), final_checks=int(st.get("final_checks", 0)),
               iteration_hooks=int(st.get("iter_hooks", 0)), slot_checks=int(st.get("slot_checks", 0)),
               exit_restart_averaging_triples=triples,
               restarts_seen=dict(soft=int(st.get("soft_restarts", 0)), hard=int(st.get("hard_restarts", 0))),
               option_keys_exercised=sorted(k[4:] for k in st if k.startswith("opt|")))
    return cov, reasons

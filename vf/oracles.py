"""Offline checkers over recorded histories, and small independent reference models."""
import math
import hashlib
import json
import numpy as np
from . import engine

EPS = np.finfo(float).eps


def cfg_hash(cfg):
    return hashlib.sha1(json.dumps(engine.jsonable(cfg), sort_keys=True).encode()).hexdigest()[:16]


def V(kind, msg, known=None, **witness):
    return dict(kind=kind, msg=msg, known=known, witness=engine.jsonable(witness))


# ---------------------------------------------------------------------------
# statistics every solver check reports (what the monitors saw)
# ---------------------------------------------------------------------------
def common_stats(run, st=None):
    st = _common_stats(run, st)
    for f_ in (getattr(run, "cfg", None) or {}).get("_forms", ()) if hasattr(run, "cfg") else ():
        st["form|" + f_] = st.get("form|" + f_, 0) + 1
    return st


def _common_stats(run, st=None):
    st = st if st is not None else {}
    c = run.ctx

    def inc(k, n=1):
        st[k] = st.get(k, 0) + n
    inc("runs")
    inc("objfun_calls", len(c.calls))
    inc("iterations", c.iters)
    inc("log_eval_lines", len(c.evalpairs))
    for (flag, msg, site) in c.exits:
        inc("exit|%s|%s|%s" % (site, flag, msg[:60]))
    for (site, ok) in c.soft_restarts:
        inc("soft_restart_site|%d|%s" % (site, "done" if ok else "refused"))
    if len(c.solve_main) > 1:
        inc("hard_restarts", len(c.solve_main) - 1)
        inc("runs_with_hard_restart")
    nsoft = sum(1 for (_s, ok) in c.soft_restarts if ok)
    if nsoft:
        inc("soft_restarts", nsoft)
        inc("runs_with_soft_restart")
    if run.soln is not None:
        inc("flag|%s" % run.soln.flag)
    if run.exc is not None:
        inc("exc|%s|%s" % (type(run.exc).__name__, engine.exc_site(run.exc)))
    if c.extra.get("lagrange_failed_from"):
        inc("failpoint_fired_in|" + c.extra["lagrange_failed_from"])
    if c.extra.get("tr_increase_fired"):
        inc("failpoint_fired_in|calculate_ratio")
    if run.livelock:
        inc("livelock")
    if run.timeout:
        inc("timeout")
    cfg = getattr(run, "cfg", None)
    if cfg:
        for k in (cfg.get("user_params") or {}):
            inc("opt|" + k)
        if cfg.get("args", {}).get("scaling_within_bounds"):
            inc("cfg|scaling")
        if cfg.get("proj"):
            inc("cfg|projections")
        if cfg.get("reg"):
            inc("cfg|regulariser")
        if cfg.get("nsamples"):
            inc("cfg|nsamples_callback")
        if cfg["prob"].get("noise"):
            inc("cfg|noise")
        if cfg.get("lower") is not None or cfg.get("upper") is not None:
            inc("cfg|bounds")
        inc("probkind|" + cfg["prob"]["kind"])
    return st


def final_exit(run):
    """(flag, msg, site) of the exit record that ended the last run, if identifiable."""
    c = run.ctx
    if run.soln is None or not c.exits:
        return None
    for (flag, msg, site) in reversed(c.exits):
        if flag == run.soln.flag and msg in run.soln.msg:
            return (flag, msg, site)
    return c.exits[-1]


# ---------------------------------------------------------------------------
# C01: exact box test on every recorded call
# ---------------------------------------------------------------------------
def box_violations(run, lo, hi, limit=5):
    out = []
    n_on_bound = 0
    for call in run.ctx.calls:
        x = call["x"]
        bad = (x < lo) | (x > hi)
        n_on_bound += int(np.sum((x == lo) | (x == hi)))
        if bad.any() or np.isnan(x).any():
            j = int(np.argmax(bad | np.isnan(x)))
            if len(out) < limit:
                out.append(V("bound-violated-at-evaluation",
                             "call %d: x[%d]=%r outside [%r, %r] by %.3g" % (
                                 call["k"], j, float(x[j]), float(lo[j]), float(hi[j]),
                                 float(max(lo[j] - x[j], x[j] - hi[j]))),
                             call=call["k"], j=j, x=x, lo=lo, hi=hi))
    s = run.soln
    if s is not None and s.x is not None and s.flag != s.EXIT_INPUT_ERROR:
        x = np.asarray(s.x, dtype=float)
        bad = (x < lo) | (x > hi)
        if bad.any() or np.isnan(x).any():
            j = int(np.argmax(bad | np.isnan(x)))
            out.append(V("bound-violated-at-solution", "soln.x[%d]=%r outside [%r, %r]" % (j, float(x[j]), float(lo[j]), float(hi[j])),
                         j=j, x=x, lo=lo, hi=hi))
    return out, n_on_bound


# ---------------------------------------------------------------------------
# C02: exact counting / numbering over the merged history (recorder + log tap)
# ---------------------------------------------------------------------------
def counting_violations(run, maxfun, nsamples_rec=None, limit=6):
    """Single linear pass. Evaluation numbers 1..nf; point numbers start at 1 and rise by 0/1; calls sharing a
    point number get the identical x; samples per point as the callback last asked (max(.,1)) unless the budget ran out."""
    out = []
    c = run.ctx
    calls = c.calls
    ncalls = len(calls)
    s = run.soln

    def add(kind, msg, **w):
        if len(out) < limit:
            out.append(V(kind, msg, **w))
    if ncalls > maxfun:
        add("budget-exceeded", "%d calls with maxfun=%d" % (ncalls, maxfun), ncalls=ncalls, maxfun=maxfun)
    if s is not None and s.flag != s.EXIT_INPUT_ERROR:
        if s.nf != ncalls:
            add("nf-mismatch", "soln.nf=%s but %d calls were made" % (s.nf, ncalls), nf=s.nf, ncalls=ncalls)
    pairs = c.evalpairs
    if len(pairs) != ncalls and run.exc is None:
        add("log-eval-count", "%d 'Function eval' log lines for %d calls" % (len(pairs), ncalls))
    # a raised objective exception leaves its call without a log line
    npairs = len(pairs)
    prev_pt = 0
    pts = {}  # point -> list of call indices
    for idx, (e, p, _o) in enumerate(pairs):
        if e != idx + 1:
            add("eval-number-gap", "log line %d reports evaluation number %d" % (idx + 1, e), idx=idx + 1, e=e)
            break
        if p != prev_pt and p != prev_pt + 1:
            add("point-number-gap", "evaluation %d reports point %d after point %d" % (e, p, prev_pt), e=e, p=p, prev=prev_pt)
            break
        prev_pt = p
        pts.setdefault(p, []).append(idx)
    for p, idxs in pts.items():
        x0 = calls[idxs[0]]["x"] if idxs[0] < ncalls else None
        for i in idxs[1:]:
            if i < ncalls and not np.array_equal(calls[i]["x"], x0):
                add("point-x-differs", "point %d: call %d received a different x than call %d" % (p, i + 1, idxs[0] + 1),
                    p=p, a=calls[idxs[0]]["x"], b=calls[i]["x"])
                break
    if s is not None and s.flag != s.EXIT_INPUT_ERROR and pts:
        if s.nx != max(pts):
            add("nx-mismatch", "soln.nx=%s but last point number is %d" % (s.nx, max(pts)), nx=s.nx, last=max(pts))
    # samples per point versus the callback
    if nsamples_rec is not None and pts:
        # nsamples_rec.log entries: (ncalls_made_before_callback, args, returned)
        asked = {}
        log = nsamples_rec.log
        li = 0
        last = None
        for p in sorted(pts):
            first_call_idx = pts[p][0]
            while li < len(log) and log[li][0] <= first_call_idx:
                last = max(int(log[li][2]), 1)
                li += 1
            asked[p] = last
        order = sorted(pts)
        # runs restarted with use_old_rk reuse the previous best point as their first point without re-evaluating it
        for p in order:
            got, want = len(pts[p]), asked[p]
            if want is None:
                continue
            is_last = (p == order[-1])
            if got > want:
                add("too-many-samples", "point %d got %d samples, callback asked %d" % (p, got, want), p=p, got=got, want=want)
            elif got < want and not (is_last and ncalls >= maxfun):
                add("too-few-samples", "point %d got %d samples, callback asked %d (calls %d / maxfun %d)" % (p, got, want, ncalls, maxfun),
                    p=p, got=got, want=want, ncalls=ncalls, maxfun=maxfun)
    elif nsamples_rec is None and pts:
        for p, idxs in pts.items():
            if len(idxs) != 1:
                add("samples-without-averaging", "point %d evaluated %d times without an nsamples callback" % (p, len(idxs)), p=p)
                break
    return out, pts


# ---------------------------------------------------------------------------
# objective values recomputed from the recorded calls
# ---------------------------------------------------------------------------
def point_table(run, h=None):
    """Group the history by point number: {p: dict(x, rs=[...], rbar, obj)} (obj includes h if given)."""
    c = run.ctx
    tab = {}
    for idx, (e, p, _o) in enumerate(c.evalpairs):
        if idx >= len(c.calls):
            break
        call = c.calls[idx]
        if call["r"] is None:
            continue
        t = tab.setdefault(p, dict(x=call["x"], rs=[], first=idx + 1))
        t["rs"].append(call["r"])
    for p, t in tab.items():
        R = np.array(t["rs"])
        with np.errstate(all="ignore"):
            t["rbar"] = R[0] if len(R) == 1 else np.mean(R, axis=0)
            t["obj"] = float(np.dot(t["rbar"], t["rbar"]))
            if h is not None:
                t["obj"] += float(h(t["x"]))
    return tab


def d22_key(run, cfg, anyfinite):
    """Finding D22, by mechanism. A success flag with a non-finite objective is the known finding only when no point with a finite
    objective exists anywhere in the history AND the route is one of the two that were characterised: (1) 'Objective is sufficiently
    small' with a non-finite f(x0) (the threshold rel_tol*f(x0) is then infinite / NaN-poisoned); (2) 'Reached maximum number of
    unsuccessful restarts' under SOFT restarts (every run is 'unsuccessful' because NaN never compares smaller)."""
    if anyfinite or run.soln is None:
        return None
    msg = run.soln.msg
    up = cfg.get("user_params") or {}
    restarts = up.get("restarts.use_restarts", bool(cfg.get("args", {}).get("objfun_has_noise")))
    soft = restarts and up.get("restarts.use_soft_restarts", True)
    if "sufficiently small" in msg:
        return "success-flag-with-no-finite-point-in-history"
    if "unsuccessful restarts" in msg and soft:
        return "success-flag-with-no-finite-point-in-history"
    return None


def sumsq(r):
    with np.errstate(all="ignore"):
        return float(np.dot(r, r))


# ---------------------------------------------------------------------------
# calling forms (gen.FORMS): what must stay untouched
# ---------------------------------------------------------------------------
def form_violations(run):
    """Arrays the caller owns (bases of the x0 / bound views) must be bit-identical after the call; an array the solver handed to
    the residual function must not be altered by the solver afterwards (the user may have kept it)."""
    out = []
    b = run.built
    forms = getattr(b, "forms", set())
    if "x0_view" in forms:
        want = np.full(len(b.x0_base), 7.25)
        want[1::2] = np.array(run.cfg["x0"], dtype=float)
        if not np.array_equal(b.x0_base, want):
            out.append(V("caller-data-modified", "the array that the x0 view points into was modified", forms=sorted(forms)))
    if "bounds_view" in forms and hasattr(b, "bounds_base"):
        base = b.bounds_base
        if not (np.all(base[:, 0::2] == -3.5)):
            out.append(V("caller-data-modified", "the array that the bound views point into was modified outside the views", forms=sorted(forms)))
        for row, key, fill in ((0, "lower", -1e20), (1, "upper", 1e20)):
            if run.cfg.get(key) is not None:
                want = np.array([fill if e is None else e for e in run.cfg[key]], dtype=float)
                if not np.array_equal(base[row, 1::2], want):
                    out.append(V("caller-data-modified", "the %s bound view was modified" % key, forms=sorted(forms)))
    if "keeps_x" in forms and "mutates_x" not in forms:
        for j, (ref, cp) in enumerate(b.kept):
            if not np.array_equal(ref, cp, equal_nan=True):
                out.append(V("solver-altered-array-given-to-objfun", "the array passed to the residual function at (kept) call %d was changed afterwards by the solver" % (j + 1),
                             forms=sorted(forms)))
                break
    return out

"""Driver: ./check <Cxx> <quick|thorough> [--replay PATH]

Splits the property's deterministic case list over worker subprocesses (never a multiprocessing.Pool),
aggregates what the monitors observed, classifies violations against KNOWN_FINDINGS.txt, writes
evidence/<id>.json and replays, and prints the three-valued verdict.
"""
import os, sys, json, time, subprocess, importlib, traceback, collections, shutil

VERIF = os.path.dirname(os.path.dirname(os.path.abspath(__file__)))
PY = "/venv/bin/python" if os.path.exists("/venv/bin/python") else sys.executable
WHEELS = "/opt/veriftools/wheels"


def ensure_deps():
    deps = os.path.join(VERIF, ".deps")
    if os.path.isdir(os.path.join(deps, "icontract")):
        return True
    if os.path.isdir(WHEELS):
        try:
            subprocess.run([PY, "-m", "pip", "install", "-q", "--no-index", "--find-links", WHEELS, "--target", deps,
                            "icontract"], check=True, stdout=subprocess.DEVNULL, stderr=subprocess.DEVNULL, timeout=300)
        except Exception:
            pass
    return os.path.isdir(os.path.join(deps, "icontract"))


def load_known_findings():
    """KNOWN_FINDINGS.txt is read-only at run time. Returns {property: {key: text}} for 'finding:' lines."""
    out = collections.defaultdict(dict)
    path = os.path.join(VERIF, "KNOWN_FINDINGS.txt")
    if not os.path.exists(path):
        return out
    for line in open(path):
        line = line.strip()
        if not line.startswith("finding:"):
            continue   # 'fixed:' lines and comments suppress nothing
        body = line[len("finding:"):].strip()
        parts = body.split(None, 2)
        prop = key = None
        for p in parts[:2]:
            if p.startswith("property="):
                prop = p.split("=", 1)[1]
            elif p.startswith("key="):
                key = p.split("=", 1)[1]
        if prop and key:
            out[prop][key] = parts[2] if len(parts) > 2 else ""
    return out


def load_prop(pid):
    return importlib.import_module("vf.props." + pid.lower())


def worker(pid, tier, seed, shard, nshards, outpath):
    from vf import engine
    mod = load_prop(pid)
    cases = mod.cases(tier, seed)
    if hasattr(mod, "setup"):
        mod.setup()
    tmo = getattr(mod, "CASE_TIMEOUT", {"quick": 120, "thorough": 600})[tier]
    import fcntl
    counter = os.path.join(os.path.dirname(outpath), "counter")

    def next_index():
        # dynamic load balancing: fetch-and-increment under an exclusive file lock
        fd = os.open(counter, os.O_RDWR | os.O_CREAT)
        try:
            fcntl.flock(fd, fcntl.LOCK_EX)
            raw = os.read(fd, 32)
            v = int(raw) if raw.strip() else 0
            os.lseek(fd, 0, 0)
            os.write(fd, b"%d" % (v + 1))
            return v
        finally:
            os.close(fd)

    # VERIF_FAST_FAIL=1 (seeded-change tooling only, never a registered command): stop handing out cases once some worker has seen
    # an unclassified violation - against a seeded change the answer "detected" is usually known after the first few cases
    fast_fail = os.environ.get("VERIF_FAST_FAIL") == "1"
    stop_flag = os.path.join(os.path.dirname(outpath), "stop")
    with open(outpath, "w") as out:
        while True:
            if fast_fail and os.path.exists(stop_flag):
                break
            i = next_index()
            if i >= len(cases):
                break
            case = cases[i]
            t0 = time.time()
            try:
                with engine.alarm(tmo):
                    res = mod.run_case(case)
            except engine.CaseTimeout:
                res = {"inconclusive": ["case wall-clock watchdog (%ds) fired" % tmo]}
            except BaseException:
                res = {"harness_error": traceback.format_exc()}
            res["i"] = i
            if res.get("viol") or res.get("inconclusive"):
                res["case"] = case     # run_case stores the expanded configuration in the case: replays do not depend on generators
            res["wall"] = round(time.time() - t0, 3)
            out.write(json.dumps(engine.jsonable(res)) + "\n")
            out.flush()
            if fast_fail and any(not v.get("known") for v in (res.get("viol") or [])):
                open(stop_flag, "w").close()
        out.write(json.dumps({"shard_done": shard}) + "\n")


def main(argv):
    if len(argv) >= 1 and argv[0] == "--worker":
        pid, tier, seed, shard, nshards, outpath = argv[1:7]
        worker(pid, tier, int(seed), int(shard), int(nshards), outpath)
        return 0
    pid = argv[0].upper()
    replay = None
    tier = os.environ.get("VERIF_TIER", "quick")
    rest = argv[1:]
    while rest:
        a = rest.pop(0)
        if a == "--replay":
            replay = rest.pop(0)
        elif a in ("quick", "thorough"):
            tier = a
    seed = int(os.environ.get("VERIF_SEED", "0") or 0)
    ensure_deps()
    os.environ["PYTHONHASHSEED"] = os.environ.get("PYTHONHASHSEED", "0")
    sys.path.insert(0, VERIF)
    mod = load_prop(pid)
    known = load_known_findings().get(pid, {})

    if replay:
        from vf import engine
        rp = json.load(open(replay))
        if hasattr(mod, "setup"):
            mod.setup()
        res = mod.run_case(rp["case"])
        res = engine.jsonable(res)
        print(json.dumps(res, indent=1)[:20000])
        bad = [v for v in res.get("viol", []) if not (v.get("known") and v["known"] in known)]
        for v in bad:
            print("VIOLATION property=%s replay=%s" % (pid, replay))
        return 1 if bad else 0

    t0 = time.time()
    ncpu = os.cpu_count() or 4
    nshards = int(os.environ.get("VERIF_SHARDS", str(min(16, ncpu))))
    cases = mod.cases(tier, seed)
    ncases = len(cases)
    nshards = max(1, min(nshards, ncases))
    work = os.path.join(VERIF, ".work", "%s-%s-%d" % (pid, tier, os.getpid()))
    os.makedirs(work, exist_ok=True)
    env = dict(os.environ)
    env["PYTHONPATH"] = VERIF + os.pathsep + env.get("PYTHONPATH", "")
    env["PYTHONDONTWRITEBYTECODE"] = "1"
    procs = []
    for s in range(nshards):
        outp = os.path.join(work, "shard%02d.jsonl" % s)
        errp = open(os.path.join(work, "shard%02d.err" % s), "w")
        p = subprocess.Popen([PY, "-m", "vf.main", "--worker", pid, tier, str(seed), str(s), str(nshards), outp],
                             cwd=VERIF, env=env, stdout=errp, stderr=errp)
        procs.append((p, outp, errp))
    budget = getattr(mod, "WALL_BUDGET", {"quick": 3600, "thorough": 8 * 3600})[tier]
    deadline = time.time() + budget
    dead_shards = []
    for s, (p, outp, errp) in enumerate(procs):
        try:
            p.wait(timeout=max(1, deadline - time.time()))
        except subprocess.TimeoutExpired:
            p.kill()
            p.wait()
            dead_shards.append("shard %d exceeded the wall budget of %ds" % (s, budget))
        errp.close()

    results = []
    for s, (p, outp, errp) in enumerate(procs):
        done = False
        if os.path.exists(outp):
            for line in open(outp):
                try:
                    r = json.loads(line)
                except Exception:
                    continue
                if "shard_done" in r:
                    done = True
                else:
                    results.append(r)
        if not done and not any(d.startswith("shard %d " % s) for d in dead_shards):
            tail = ""
            try:
                tail = open(os.path.join(work, "shard%02d.err" % s)).read()[-600:]
            except Exception:
                pass
            dead_shards.append("shard %d died (exit %s): %s" % (s, p.returncode, tail.replace("\n", " | ")))
    results.sort(key=lambda r: r["i"])

    stats = collections.Counter()
    nontrivial = set()
    samples = []
    viols = []
    inconcl = list(dead_shards)
    harness_errors = []
    walls = []
    for r in results:
        for k, v in r.get("stats", {}).items():
            stats[k] += v
        for k in r.get("nontrivial", []):
            nontrivial.add(k if isinstance(k, str) else json.dumps(k))
        if r.get("sample") is not None and len(samples) < getattr(mod, "NSAMPLES", 4):
            samples.append(r["sample"])
        for v in r.get("viol", []):
            v["case_i"] = r["i"]
            viols.append(v)
        if r.get("case") is not None:
            cases[r["i"]] = r["case"]
        for m in r.get("inconclusive", []):
            inconcl.append("case %d: %s" % (r["i"], m))
        if r.get("harness_error"):
            harness_errors.append((r["i"], r["harness_error"]))
        walls.append(r.get("wall", 0))
    missing = ncases - len(results)
    if missing > 0:
        inconcl.append("%d of %d cases produced no result" % (missing, ncases))
    for i, tb in harness_errors[:5]:
        inconcl.append("case %d: harness error: %s" % (i, tb.strip().splitlines()[-1] if tb.strip() else "?"))

    agg = dict(stats=stats, nontrivial=nontrivial, ncases=ncases, nresults=len(results), tier=tier, seed=seed)
    cov_extra, reasons = mod.finalize(agg) if hasattr(mod, "finalize") else ({}, [])
    # tolerate a tiny share of wall-clock watchdog firings (machine load), never harness errors
    n_watchdog = sum(1 for m in inconcl if "watchdog" in m)
    hard_inconcl = [m for m in inconcl if "watchdog" not in m]
    if n_watchdog > max(1, 0.005 * ncases):
        hard_inconcl.append("%d cases hit the wall-clock watchdog (> 0.5%%)" % n_watchdog)
    hard_inconcl += list(reasons)

    # classify violations
    unknown, knownv = [], []
    for v in viols:
        if v.get("known") and v["known"] in known:
            knownv.append(v)
        else:
            unknown.append(v)
    os.makedirs(os.path.join(VERIF, "replays", pid), exist_ok=True)
    printed = set()
    for v in knownv:
        if v["known"] not in printed:
            printed.add(v["known"])
            print("KNOWN-FINDING: property=%s %s [%s] (%d occurrence(s) this run; e.g. case %d: %s)" % (
                pid, known[v["known"]], v["known"], sum(1 for w in knownv if w["known"] == v["known"]),
                v["case_i"], v.get("msg", "")[:200]))
    replay_paths = []
    seen_cases = set()
    for v in unknown[:50]:
        ci = v["case_i"]
        rp = os.path.join(VERIF, "replays", pid, "%s-%d-%d.json" % (tier, seed, ci))
        if ci not in seen_cases:
            seen_cases.add(ci)
            json.dump({"property": pid, "tier": tier, "seed": seed, "case": cases[ci],
                       "violations": [w for w in unknown if w["case_i"] == ci][:20]}, open(rp, "w"), indent=1)
            replay_paths.append(rp)
            print("VIOLATION property=%s replay=%s  # %s: %s" % (pid, rp, v.get("kind"), v.get("msg", "")[:300]))

    wall = time.time() - t0
    coverage = dict(evaluations=int(ncases), distinct_nontrivial=int(len(nontrivial)), rule=getattr(mod, "RULE", ""),
                    samples=samples[:getattr(mod, "NSAMPLES", 4)])
    if getattr(mod, "EXHAUSTIVE", False):
        coverage["exhaustive"] = bool(mod.EXHAUSTIVE if not callable(mod.EXHAUSTIVE) else mod.EXHAUSTIVE(tier))
    coverage.update(cov_extra)
    coverage["counters"] = {k: int(v) for k, v in sorted(stats.items()) if not k.startswith("_")}
    coverage["known_findings_seen"] = dict(collections.Counter(v["known"] for v in knownv))
    coverage["inconclusive_cases"] = inconcl[:20]
    coverage["n_inconclusive_notes"] = len(inconcl)
    from vf.engine import tree_sha256, REPO
    coverage["tree_sha256"] = tree_sha256()
    coverage["repo"] = REPO
    coverage["shards"] = nshards
    coverage["case_wall_s_max"] = max(walls) if walls else 0
    verdict = "violated" if unknown else ("inconclusive" if hard_inconcl else "held")
    coverage["verdict"] = verdict
    ev = dict(property_id=pid, tier=tier, seed=seed, level=getattr(mod, "LEVEL", "exploration"), coverage=coverage,
              assumptions=list(getattr(mod, "ASSUMPTIONS", [])), wall_s=round(wall, 2), violations=len(unknown))
    evdir = os.path.join(VERIF, ".work", "evidence-scratch") if os.environ.get("VERIF_NOEVIDENCE") else os.path.join(VERIF, "evidence")
    os.makedirs(evdir, exist_ok=True)
    evp = os.path.join(evdir, pid + ".json")
    tmp = evp + ".tmp%d" % os.getpid()
    json.dump(ev, open(tmp, "w"), indent=1, sort_keys=False)
    os.replace(tmp, evp)
    if not os.environ.get("VERIF_KEEP_WORK"):
        shutil.rmtree(work, ignore_errors=True)

    summ = getattr(mod, "summary", None)
    print("%s %s seed=%d: %d cases, %d distinct non-trivial, %d violation(s), %d known-finding occurrence(s), %.1fs -> %s" % (
        pid, tier, seed, ncases, len(nontrivial), len(unknown), len(knownv), wall, verdict.upper()))
    if summ:
        try:
            print(summ(agg))
        except Exception:
            pass
    if unknown:
        return 1
    if hard_inconcl:
        for m in hard_inconcl[:10]:
            print("INCONCLUSIVE property=%s %s" % (pid, m))
        return 2
    return 0


if __name__ == "__main__":
    sys.exit(main(sys.argv[1:]))

"""Solver-level workload shared by the history checks (C03, C04, C10, C11, C18, C20):
a wide configuration generator plus the directed enumerations derived from a reference run
(budget index, exit index) that put the end of a run wherever we want it."""
import copy
import numpy as np
from . import engine, gen, oracles


def gen_cfg(rng, deterministic=False, averaging_p=0.3, noise_p=0.25, box_p=0.35, proj_p=0.08, reg_p=0.08,
            restarts_p=0.45, nmax=4, mmax=7, maxfuns=(12, 25, 40, 60, 100), kinds=("linear", "sinlin", "exp", "rosen"),
            allow=("restarts", "regression", "growing", "tols", "random_init", "rare"), npt_p=0.3, term_p=0.3, forms_p=0.12):
    r = rng.random
    spec = gen.gen_problem(rng, kinds=kinds, nmax=nmax, mmax=mmax, noise_p=(0.0 if deterministic else noise_p))
    n = spec["n"]
    npt = int(rng.integers(n + 1, 2 * n + 2)) if r() < npt_p else None
    opt = gen.gen_options(rng, n, npt=npt, restarts_p=restarts_p, allow=allow)
    up = opt["user_params"]
    cfg = dict(prob=spec, x0=(rng.normal(size=n) * 2).tolist(), lower=None, upper=None, user_params=up)
    rhoend = float(10.0 ** rng.integers(-8, -1))
    args = dict(maxfun=int(gen.pick(rng, list(maxfuns))), rhoend=rhoend)
    if npt is not None:
        args["npt"] = npt
    if spec.get("noise"):
        args["objfun_has_noise"] = bool(r() < 0.6)
    cfg["args"] = args
    if not deterministic and r() < averaging_p:
        kind = gen.pick(rng, ["const", "const", "iter", "rho", "nruns"])
        ns = dict(kind=kind)
        if kind == "const":
            ns["v"] = int(rng.integers(2, 5))
        cfg["nsamples"] = ns
    v = r()
    if v < box_p:
        box = gen.gen_box(rng, n, scaling_p=0.45, place_p=0.4)
        cfg.update(x0=box["x0"], lower=box["lower"], upper=box["upper"])
        args["rhobeg"] = box["rhobeg"]
        args["rhoend"] = box["rhobeg"] * float(10.0 ** rng.integers(-7, -1))
        if box["scaling"]:
            args["scaling_within_bounds"] = True
    elif v < box_p + proj_p and npt is None and "growing.ndirs_initial" not in up and "restarts.increase_npt" not in up:
        sets, z, margin = gen.gen_convex_sets(rng, n)
        cfg["proj"] = sets
        cfg["x0"] = (z + 0.3 * margin * rng.normal(size=n) / np.sqrt(n)).tolist()
        args["rhobeg"] = float(0.3 * margin)
        args["rhoend"] = float(0.3 * margin * 10.0 ** rng.integers(-6, -1))
        args["maxfun"] = min(args["maxfun"], 40)
        up.pop("init.random_initial_directions", None)
        up.pop("init.run_in_parallel", None)
        up.pop("init.random_directions_make_orthogonal", None)
        if "rare" in allow:
            gen.rare_options(up, n, p_block=0.5, proj=True, npt=npt)
    elif v < box_p + proj_p + reg_p:
        cfg["reg"] = dict(type=gen.pick(rng, ["l1", "l2"]), lam=float(10.0 ** rng.uniform(-2, 0)))
        if "rare" in allow:
            gen.rare_options(up, n, p_block=0.5, reg=True, npt=npt)
        args["maxfun"] = min(args["maxfun"], 30)
        if r() < 0.4:
            box = gen.gen_box(rng, n, scaling_p=0.0, place_p=0.3, one_sided_p=0.0)
            cfg.update(x0=box["x0"], lower=box["lower"], upper=box["upper"])
            args["rhobeg"] = box["rhobeg"]
            args["rhoend"] = box["rhobeg"] * 1e-4
    # termination-route options
    if r() < term_p:
        u = r()
        if u < 0.3:
            up["model.abs_tol"] = float(10.0 ** rng.uniform(-6, 2))
        elif u < 0.45:
            up["model.rel_tol"] = float(10.0 ** rng.uniform(-6, -0.3))
        elif u < 0.6 and "slow.max_slow_iters" not in up:
            up["slow.max_slow_iters"] = int(rng.integers(1, 5))
            up["slow.thresh_for_slow"] = float(10.0 ** rng.uniform(-2, 0))
        elif u < 0.75 and spec.get("noise"):
            up["noise.quit_on_noise_level"] = True
            if r() < 0.5:
                up["noise.additive_noise_level"] = float(10.0 ** rng.uniform(-4, 0))
            else:
                up["noise.multiplicative_noise_level"] = float(10.0 ** rng.uniform(-3, -0.5))
        elif u < 0.9 and up.get("restarts.use_restarts") and up.get("restarts.use_soft_restarts", True) \
                and "restarts.soft.max_fake_successful_steps" not in up:
            up["restarts.soft.max_fake_successful_steps"] = int(rng.integers(1, 4))
    if forms_p > 0:
        # calling forms (views, numpy scalars, residual functions that return lists / one re-used buffer, overwrite or keep their
        # argument): value-preserving, drawn from a child generator so that no other draw moves
        fg = np.random.default_rng([int(oracles.cfg_hash(cfg)[:8], 16), 31])
        forms = gen.sample_forms(fg, p=forms_p)
        if forms:
            cfg["_forms"] = forms
    return cfg


def objective_of_call(call, h=None):
    if call["r"] is None:
        return np.nan
    with np.errstate(all="ignore"):
        v = float(np.dot(call["r"], call["r"]))
        if h is not None:
            v += float(h(call["x"]))
    return v


def exit_index_cfgs(cfg, ref, h=None, max_cases=40):
    """One derived cfg per call j of the reference run whose objective sets a new running minimum:
    model.abs_tol = obj_j*(1+1e-9), rel_tol = 0 - the run then ends by 'objective sufficiently small' exactly at call j,
    in whatever phase j happens to be (initialisation, trial, geometry, regression, restart step ...)."""
    out = []
    best = np.inf
    for call in ref.ctx.calls:
        v = objective_of_call(call, h)
        if np.isfinite(v) and v < best:
            best = v
            if call["k"] == 1:
                continue  # exit at x0 is covered by dedicated cases (abs_tol large)
            c2 = copy.deepcopy(cfg)
            up = c2.setdefault("user_params", {})
            up["model.abs_tol"] = float(v * (1 + 1e-9)) if v > 0 else 0.0
            up["model.rel_tol"] = 0.0
            c2["_derived"] = dict(kind="exit-index", j=call["k"])
            out.append(c2)
    if len(out) > max_cases:
        idx = np.unique(np.linspace(0, len(out) - 1, max_cases).astype(int))
        out = [out[i] for i in idx]
    return out


def budget_index_cfgs(cfg, ref, max_cases=60):
    nf = len(ref.ctx.calls)
    Ms = list(range(1, nf + 1))
    if len(Ms) > max_cases:
        Ms = sorted(set(np.unique(np.linspace(1, nf, max_cases).astype(int)).tolist()))
    out = []
    for M in Ms:
        c2 = copy.deepcopy(cfg)
        c2["args"]["maxfun"] = int(M)
        c2["_derived"] = dict(kind="budget-index", M=int(M))
        out.append(c2)
    return out


def restart_mode(cfg):
    up = cfg.get("user_params") or {}
    if not up.get("restarts.use_restarts", bool(cfg.get("args", {}).get("objfun_has_noise"))):
        return "none"
    return "soft" if up.get("restarts.use_soft_restarts", True) else "hard"


class PointTable(object):
    """Incremental join of recorder and log tap: point number -> x, samples (usable mid-run from the iteration hook)."""

    def __init__(self, ctx):
        self.ctx = ctx
        self.done = 0
        self.tab = {}

    def update(self):
        c = self.ctx
        n = min(len(c.evalpairs), len(c.calls))
        while self.done < n:
            e, p, _o = c.evalpairs[self.done]
            call = c.calls[self.done]
            self.done += 1
            if call["r"] is None:
                continue
            t = self.tab.setdefault(p, dict(x=call["x"], rs=[], first=call["k"]))
            t["rs"].append(call["r"])
            t.pop("rbar", None)
        return self.tab

    def get(self, p):
        self.update()
        return self.tab.get(int(p))

    @staticmethod
    def rbar(t):
        if "rbar" not in t:
            R = np.array(t["rs"])
            with np.errstate(all="ignore"):
                t["rbar"] = R[0] if len(R) == 1 else np.mean(R, axis=0)
        return t["rbar"]


def same(a, b, rtol=0.0, atol=0.0):
    """Equality treating NaN==NaN and inf==inf; optional tolerance."""
    a = np.asarray(a, dtype=float)
    b = np.asarray(b, dtype=float)
    if a.shape != b.shape:
        return False
    with np.errstate(all="ignore"):
        eq = (a == b) | (np.isnan(a) & np.isnan(b))
        if rtol or atol:
            eq |= np.abs(a - b) <= atol + rtol * np.maximum(np.abs(a), np.abs(b))
    return bool(np.all(eq))


def failpoint_cfgs(cfg, ref, max_lagrange=6, max_ratio=6):
    """Derived cfgs that inject, at calls spread over the reference run, (a) a LinAlgError inside the Lagrange solve and
    (b) a 'model increases along the step' verdict in the acceptance test. Needs engine.install_failpoints() before the
    reference run (it counts the calls)."""
    out = []
    for name, key, mx in (("lagrange", "lagrange_calls", max_lagrange), ("tr_increase", "ratio_calls", max_ratio)):
        L = int(ref.ctx.extra.get(key, 0))
        if not L or not mx:
            continue
        for j in sorted(set(int(v) for v in np.unique(np.linspace(1, L, mx).astype(int)))):
            c2 = copy.deepcopy(cfg)
            c2["failpoint"] = dict(name=name, at=j)
            c2["_derived"] = dict(kind="failpoint-" + name, j=j, of=L)
            out.append(c2)
    return out


def maybe_failpoint(cfg, rng, p=0.1, max_at=40):
    """With probability p put one failpoint somewhere in the run (a count beyond the run's length simply never fires).
    Drawn from its own stream so that the configuration itself is the one generated without this call."""
    r2 = np.random.default_rng([int(rng.integers(0, 2 ** 31)), 77])
    if r2.random() < p and not cfg.get("proj"):
        name = "lagrange" if r2.random() < 0.5 else "tr_increase"
        hi = max_at * (3 if name == "lagrange" else 1)
        cfg["failpoint"] = dict(name=name, at=int(np.ceil(hi ** r2.random())))   # log-uniform: early calls as likely as late ones
    return cfg


def failpoint_stats(run, st):
    x = run.ctx.extra
    if x.get("lagrange_failed_from"):
        st["failpoint_fired_in|" + x["lagrange_failed_from"]] = st.get("failpoint_fired_in|" + x["lagrange_failed_from"], 0) + 1
    if x.get("tr_increase_fired"):
        st["failpoint_fired_in|calculate_ratio"] = st.get("failpoint_fired_in|calculate_ratio", 0) + 1


def growing_restart_variant(cfg, rng, nan_fault=True):
    """Turn a cfg into: initial set still growing (growing.ndirs_initial < n) + soft restarts that add points
    (restarts.increase_npt) + something that forces a restart while the set is still growing (a NaN at one of the first
    evaluations, or an early Lagrange failpoint). This is the only route into Model.add_new_point with unfilled rows."""
    n = cfg["prob"]["n"]
    if n < 2 or cfg.get("proj"):
        return cfg
    up = cfg["user_params"]
    for k in list(up):
        if k.startswith(("growing.", "restarts.", "regression.", "init.")):
            up.pop(k)
    cfg["args"].pop("npt", None)
    up.update({"growing.ndirs_initial": int(rng.integers(1, n)), "restarts.use_restarts": True, "restarts.increase_npt": True,
               "restarts.max_npt": int(n + 1 + rng.integers(1, 4))})
    if rng.random() < 0.4:
        up["growing.num_new_dirns_each_iter"] = int(rng.integers(1, 3))
    if rng.random() < 0.3:
        up["restarts.increase_npt_amt"] = 2
    if nan_fault:
        cfg["faults"] = {str(int(rng.integers(2, n + 4))): "nan"}
        cfg.pop("failpoint", None)
    else:
        cfg["failpoint"] = dict(name="lagrange", at=int(rng.integers(1, 4)))
    cfg["_variant"] = "growing+soft-restart+increase_npt"
    return cfg


def long_growing_cfg(rng, deterministic=True, safety=None):
    """Configurations whose GROWING phase is long and eventful (found with the line-coverage probe: the restart / exit branches
    inside the growing-phase safety step were never reached by the generic workload): consistent linear or mildly nonlinear
    inverse problem (m < n) in many dimensions, one or two initial directions, start 10-100 rhobeg away from the solution set so
    that the run converges (tiny steps => safety steps) while the set is still growing; safety variant reduce_delta /
    full_geom_step / default; optional soft restarts."""
    n = int(rng.integers(5, 11))
    m = int(rng.integers(2, n - 1))
    kind = gen.pick(rng, ["linear", "linear", "sinlin"])
    spec = dict(kind=kind, n=n, m=m, pseed=int(rng.integers(0, 2 ** 31)), cond=10.0, scale=1.0)
    rhobeg = float(10.0 ** rng.uniform(-1.5, 0))
    if kind == "linear":
        A, b = gen.linear_data(n, m, spec["pseed"], 10.0, 1.0)
        xs = np.linalg.lstsq(A, b, rcond=None)[0]
        dvec = A.T @ rng.normal(size=m)
        x0 = xs + dvec / np.linalg.norm(dvec) * rhobeg * float(10.0 ** rng.uniform(0.5, 2))
    else:
        x0 = rng.normal(size=n)
    up = {"growing.ndirs_initial": int(rng.integers(1, 3))}
    safety = safety or gen.pick(rng, ["reduce_delta", "full_geom_step", "full_geom_step", "default"])
    if safety == "reduce_delta":
        up["growing.safety.reduce_delta"] = True
    elif safety == "full_geom_step":
        up["growing.safety.full_geom_step"] = True
    if rng.random() < 0.4:
        up["growing.do_geom_steps"] = True
    if rng.random() < 0.3:
        up["growing.num_new_dirns_each_iter"] = int(rng.integers(0, 3))
    if rng.random() < 0.5:
        up["restarts.use_restarts"] = True
        if rng.random() < 0.25:
            up["restarts.use_soft_restarts"] = False
    cfg = dict(prob=spec, x0=x0.tolist(), lower=None, upper=None, user_params=up,
               args=dict(maxfun=int(gen.pick(rng, [30, 45, 60])), rhobeg=rhobeg, rhoend=rhobeg * 1e-5))
    if not deterministic and rng.random() < 0.4:
        spec["noise"] = float(10.0 ** rng.uniform(-4, -2))
        spec["nseed"] = int(rng.integers(0, 2 ** 31))
        cfg["args"]["objfun_has_noise"] = bool(rng.random() < 0.5)
        if rng.random() < 0.5:
            cfg["nsamples"] = dict(kind="const", v=int(rng.integers(2, 4)))
    cfg["_variant"] = "long-growing/" + safety
    return cfg

"""Runtime-monitoring harness for numericalalgorithmsgroup/dfols (see /verif/DESIGN.md)."""

"""Seeded generators. A *cfg* is a plain JSON-able dict that fully determines one call of dfols.solve
(problem, geometry, options, faults); ``build(cfg, ctx)`` turns it into callables. Replay files store the
cfg itself, so a witness does not depend on generator code staying unchanged.
"""
import math
import numpy as np
from . import engine

EPS = np.finfo(float).eps
import os
GROW_WIDE = os.environ.get("VERIF_GROW_WIDE", "1") == "1"


# ---------------------------------------------------------------------------
# problems
# ---------------------------------------------------------------------------
def linear_data(n, m, pseed, cond=10.0, scale=1.0, bscale=1.0):
    rng = np.random.default_rng([int(pseed), 7])
    k = min(m, n)
    U, _ = np.linalg.qr(rng.normal(size=(m, m)))
    V, _ = np.linalg.qr(rng.normal(size=(n, n)))
    s = scale * np.logspace(0, -math.log10(max(cond, 1.0)), k) if k > 1 else np.array([scale])
    A = (U[:, :k] * s) @ V[:, :k].T
    b = bscale * rng.normal(size=m)
    return A, b


def make_residual(spec, lo=None, hi=None):
    """Deterministic residual function r(x) for a problem spec (noise is added separately)."""
    kind, n, m, pseed = spec["kind"], spec["n"], spec["m"], spec["pseed"]
    if kind == "linear":
        A, b = linear_data(n, m, pseed, spec.get("cond", 10.0), spec.get("scale", 1.0), spec.get("bscale", 1.0))
        return lambda x: A @ x - b
    if kind == "target":
        # r = w*(x - t) [+ one coupling row] [+ sqrt traps]: minimiser at clip(t) => chosen bounds are active at the solution
        t = np.array(spec["t"], dtype=float)
        w = np.array(spec["w"], dtype=float)
        cpl = np.array(spec["couple"], dtype=float) if spec.get("couple") is not None else None
        lo_ = gen_arr(lo, n, -np.inf)
        hi_ = gen_arr(hi, n, np.inf)
        fl, fh = np.isfinite(lo_), np.isfinite(hi_)
        trap = bool(spec.get("trap"))

        def f(x):
            parts = [w * (x - t)]
            if cpl is not None:
                parts.append(np.array([0.1 * float(cpl @ (x - t))]))
            if trap and fl.any():
                parts.append(0.01 * np.sqrt(x[fl] - lo_[fl]))
            if trap and fh.any():
                parts.append(0.01 * np.sqrt(hi_[fh] - x[fh]))
            return np.concatenate(parts)
        return f
    rng = np.random.default_rng([int(pseed), 11])
    A = rng.normal(size=(m, n)) * spec.get("scale", 1.0)
    b = rng.normal(size=m)
    if kind == "nandisc":
        # defined only on a disc: NaN everywhere outside ||x - centre|| <= radius (a hidden constraint the solver is not told about)
        c0 = np.array(spec["centre"], dtype=float)
        R = float(spec["radius"])
        base = spec.get("base", "lin")

        def f(x):
            v = (A @ x - b) if base == "lin" else np.concatenate([np.sin(A @ x) - b, [1.0]])
            return v if float(np.linalg.norm(x - c0)) <= R else v * np.nan
        return f
    if kind == "const":
        # flat objective: every interpolation value identical (zero model gradient and Hessian); "plateau": flat outside a ball
        return lambda x: b + 0.0 * x[0]
    if kind == "plateau":
        c0 = rng.normal(size=n)
        return lambda x: b + (A @ (x - c0)) * max(0.0, 1.0 - float(np.linalg.norm(x - c0)))
    if kind == "sinlin":
        return lambda x: np.sin(A @ x) - b + 0.1 * (A @ x) ** 2
    if kind == "exp":
        return lambda x: np.exp(0.3 * np.clip(A @ x, -20, 20)) - b
    if kind == "rosen":
        def f(x):
            out = np.zeros(m)
            for i in range(m):
                j = (i // 2) % n
                jn = (j + 1) % n
                out[i] = 10.0 * (x[jn] - x[j] ** 2) if i % 2 == 0 else 1.0 - x[j]
            return out
        return f
    if kind == "dom":
        # domain-restricted: NaN as soon as any finite bound is overshot, even by one ulp
        lo_ = np.array([-np.inf if v is None else v for v in lo], dtype=float) if lo is not None else np.full(n, -np.inf)
        hi_ = np.array([np.inf if v is None else v for v in hi], dtype=float) if hi is not None else np.full(n, np.inf)
        fl, fh = np.isfinite(lo_), np.isfinite(hi_)
        mm = max(1, m)
        A2 = A[:mm]
        b2 = b[:mm]

        def f(x):
            parts = [A2 @ x - b2]
            if fl.any():
                parts.append(0.3 * np.sqrt(x[fl] - lo_[fl]))
            if fh.any():
                parts.append(0.3 * np.sqrt(hi_[fh] - x[fh]))
            return np.concatenate(parts)
        return f
    if kind == "quadres":
        return lambda x: (A @ x - b) + 0.05 * (A @ x - b) ** 3
    raise ValueError(kind)


def gen_arr(v, n, fill):
    if v is None:
        return np.full(n, fill)
    return np.array([fill if e is None else e for e in v], dtype=float)


FORMS = ("x0_view", "bounds_view", "ret_list", "ret_samebuf", "ret_noncontig", "mutates_x", "keeps_x", "np_scalars", "extra_args", "proj_inplace")
ARGSF = (2.5, "token-f")
ARGSH = (("token-h", 7),)
ARGSPROX = (-1.25, None)


class ArgsNotPassedThrough(AssertionError):
    pass


def _expect_args(name, got, want):
    if tuple(got) != tuple(want):
        raise ArgsNotPassedThrough("%s received extra arguments %r instead of %r" % (name, got, want))


def sample_forms(g, p=1.0):
    """Value-preserving variations of HOW the arguments are passed and of what the residual function does with its argument / returns:
    none of them may change a single evaluation point or result."""
    if g.random() >= p:
        return []
    k = int(g.integers(1, 4))
    out = sorted(set(pick(g, list(FORMS)) for _ in range(k)))
    if "ret_samebuf" in out and "ret_list" in out:
        out.remove("ret_list")
    return out


class FormedFun(object):
    """The residual function as impolite-but-legitimate user code writes it: returns a list, or the same buffer on every call
    (overwritten in place), or a strided view; overwrites the x it was given after using it; keeps a reference to that x."""

    def __init__(self, f, forms, kept):
        self.f, self.forms, self.kept = f, forms, kept
        self.buf = None

    def __call__(self, x, *a):
        r = np.asarray(self.f(x, *a), dtype=float)
        if "keeps_x" in self.forms and len(self.kept) < 400:
            self.kept.append((x, np.array(x, copy=True)))
        if "mutates_x" in self.forms and isinstance(x, np.ndarray) and x.flags.writeable:
            x += 1.0e3
            x *= -3.0
        if "ret_samebuf" in self.forms or "ret_noncontig" in self.forms:
            if self.buf is None or self.buf.shape[0] != 2 * len(r) + 1:
                self.buf = np.zeros(2 * len(r) + 1)
            if "ret_noncontig" in self.forms:
                self.buf[1::2] = r
                return self.buf[1::2]
            self.buf[:len(r)] = r
            return self.buf[:len(r)]
        if "ret_list" in self.forms:
            return r.tolist()
        return r


class NoisyFun(object):
    def __init__(self, f, sigma, nseed, additive=False):
        self.f, self.sigma, self.additive = f, sigma, additive
        self.rng = np.random.default_rng([int(nseed), 13])

    def __call__(self, x):
        r = self.f(x)
        z = self.rng.normal(size=len(r))
        return r + self.sigma * z if self.additive else r * (1.0 + self.sigma * z)


# ---------------------------------------------------------------------------
# projections / regularisers / nsamples callbacks
# ---------------------------------------------------------------------------
def make_projection(p):
    t = p["type"]
    if t == "ball":
        c, r = np.array(p["c"], dtype=float), float(p["r"])
        return lambda x: c + (r / max(np.linalg.norm(x - c), r)) * (x - c)
    if t == "half":
        a, b = np.array(p["a"], dtype=float), float(p["b"])
        aa = float(a @ a)
        return lambda x: x - (max(float(a @ x) - b, 0.0) / aa) * a
    if t == "box":
        l, u = np.array(p["l"], dtype=float), np.array(p["u"], dtype=float)
        return lambda x: np.minimum(np.maximum(x, l), u)
    raise ValueError(t)


def set_distance(p, x):
    """Distance from x to the convex set described by p (exact)."""
    return float(np.linalg.norm(x - make_projection(p)(x)))


def make_regulariser(reg, n):
    lam = float(reg["lam"])
    if reg["type"] == "l1":
        h = lambda x, *a: lam * float(np.sum(np.abs(x)))
        prox = lambda x, u, *a: np.sign(x) * np.maximum(np.abs(x) - lam * u, 0.0)
        lh = lam * math.sqrt(n)
    elif reg["type"] == "l2":
        h = lambda x, *a: lam * float(np.linalg.norm(x))
        def prox(x, u, *a):
            nx = np.linalg.norm(x)
            return np.zeros_like(x) if nx <= lam * u else (1.0 - lam * u / nx) * x
        lh = lam
    else:
        raise ValueError(reg["type"])
    return h, prox, lh


def make_nsamples(spec):
    kind = spec["kind"]
    if kind == "const":
        v = int(spec["v"])
        return lambda delta, rho, it, nruns: v
    if kind == "iter":
        return lambda delta, rho, it, nruns: 1 + (it % 3)
    if kind == "rho":
        thr = float(spec.get("thr", 1e-2))
        return lambda delta, rho, it, nruns: 3 if rho < thr else 1
    if kind == "nruns":
        return lambda delta, rho, it, nruns: 1 + nruns
    if kind == "rand":
        rng = np.random.default_rng([int(spec["seed"]), 17])
        return lambda delta, rho, it, nruns: int(rng.integers(-1, 4))
    raise ValueError(kind)


# ---------------------------------------------------------------------------
# cfg -> callables
# ---------------------------------------------------------------------------
class Built(object):
    pass


def arr(v, n, fill):
    if v is None:
        return np.full(n, fill)
    return np.array([fill if e is None else e for e in v], dtype=float)


def build(cfg, ctx):
    """Returns Built with: objfun (un-recorded), x0, kwargs for solve, lo/hi (user box as arrays with +-inf),
    recorders for h/prox/nsamples/projections."""
    b = Built()
    spec = cfg["prob"]
    n = spec["n"]
    b.n = n
    b.lo = arr(cfg.get("lower"), n, -np.inf)
    b.hi = arr(cfg.get("upper"), n, np.inf)
    f = make_residual(spec, cfg.get("lower"), cfg.get("upper"))
    b.f_det = f
    if spec.get("noise"):
        f = NoisyFun(f, float(spec["noise"]), spec.get("nseed", 0), additive=bool(spec.get("additive")))
    forms = set(cfg.get("_forms") or ())
    b.forms = forms
    b.kept = []          # (reference to the array objfun was handed, copy taken at that moment) for the "keeps_x" form
    if forms & {"ret_list", "ret_samebuf", "ret_noncontig", "mutates_x", "keeps_x"}:
        f = FormedFun(f, forms, b.kept)
    if cfg.get("_ret_dtype"):
        # residual functions that do not return float64: a single-precision simulator, integer counts, a list of Python ints
        # (not value-preserving - for checks that only need *a* result, like the serialisation round trip)
        kind_, f1_ = cfg["_ret_dtype"], f
        if kind_ == "float32":
            f = lambda x, *a: np.asarray(f1_(x, *a)).astype(np.float32)
        elif kind_ == "int":
            f = lambda x, *a: np.rint(4.0 * np.asarray(f1_(x, *a))).astype(np.int64)
        else:
            f = lambda x, *a: [int(v) for v in np.rint(4.0 * np.asarray(f1_(x, *a)))]
    if "extra_args" in forms:
        # the residual function, h and the prox each REQUIRE their extra arguments (argsf / argsh / argsprox), exactly as given
        f0_ = f
        f = lambda x, *a: (_expect_args("objfun", a, ARGSF), f0_(x))[1]
    b.objfun = f
    b.x0 = np.array(cfg["x0"], dtype=float)
    if "x0_view" in forms:
        # the caller's x0 is a strided view into a larger array (whose other entries must stay untouched as well)
        b.x0_base = np.full(2 * n + 1, 7.25)
        b.x0_base[1::2] = b.x0
        b.x0 = b.x0_base[1::2]
    kw = {}
    a = cfg.get("args", {})
    for k in ("npt", "rhobeg", "rhoend", "maxfun", "scaling_within_bounds", "objfun_has_noise", "do_logging", "print_progress"):
        if k in a and a[k] is not None:
            kw[k] = a[k]
    if "np_scalars" in forms and kw.get("scaling_within_bounds") is True:
        kw["scaling_within_bounds"] = np.bool_(True)       # the result of a numpy comparison, as in np.all(upper > lower)
    if cfg.get("_x0_int"):
        b.x0 = np.rint(b.x0).astype(np.int64)               # integer-typed start (its values are integral in the cfg already)
    if cfg.get("lower") is not None or cfg.get("upper") is not None:
        lo = None if cfg.get("lower") is None else arr(cfg["lower"], n, -1e20)
        hi = None if cfg.get("upper") is None else arr(cfg["upper"], n, 1e20)
        if "bounds_view" in forms:
            base = np.full((2, 2 * n + 1), -3.5)
            if lo is not None:
                base[0, 1::2] = lo
                lo = base[0, 1::2]
            if hi is not None:
                base[1, 1::2] = hi
                hi = base[1, 1::2]
            b.bounds_base = base
        kw["bounds"] = (lo, hi)
    if cfg.get("user_params") is not None:
        kw["user_params"] = dict(cfg["user_params"])
        if "np_scalars" in forms:
            kw["user_params"] = {k: (np.float64(v) if type(v) is float else v) for k, v in kw["user_params"].items()}
    b.nsamples = None
    if cfg.get("nsamples"):
        b.nsamples = engine.RecordedCallable(make_nsamples(cfg["nsamples"]), "nsamples", ctx)
        kw["nsamples"] = b.nsamples
    b.projs = []
    if cfg.get("proj"):
        b.projs = [make_projection(p) for p in cfg["proj"]]
        if "proj_inplace" in forms:
            # user projectors that overwrite the vector they are handed and return it (np.clip(w, l, u, out=w) style)
            def _inplace(q):
                def w(v):
                    v[...] = q(v.copy())
                    return v
                return w
            kw["projections"] = [_inplace(q) for q in b.projs]     # b.projs stays pure: the harness judges with it
        else:
            kw["projections"] = list(b.projs)
    b.h = b.prox = None
    if cfg.get("reg"):
        h, prox, lh = make_regulariser(cfg["reg"], n)
        b.h_raw = h
        if "extra_args" in forms:
            h_, prox_ = h, prox
            h = lambda x, *a: (_expect_args("h", a, ARGSH), h_(x))[1]
            prox = lambda x, u, *a: (_expect_args("prox_uh", a, ARGSPROX), prox_(x, u))[1]
            kw["argsh"], kw["argsprox"] = ARGSH, ARGSPROX
        b.h = engine.RecordedCallable(h, "h", ctx, keep=False)
        b.prox = engine.RecordedCallable(prox, "prox", ctx, keep=False)
        kw["h"], kw["prox_uh"], kw["lh"] = b.h, b.prox, lh
    if "extra_args" in forms:
        kw["argsf"] = ARGSF
    b.kw = kw
    b.faults = {int(k): v for k, v in (cfg.get("faults") or {}).items()}
    b.persistent = tuple(cfg["persistent"]) if cfg.get("persistent") else None
    return b


def without_logging(cfg):
    """Same configuration run with do_logging=False, as most callers run it (no-op for averaging runs, whose point numbers only the
    log shows). The random directions stay those of the logged twin (np_seed_for ignores the switch)."""
    if cfg.get("nsamples"):
        return cfg
    cfg["args"]["do_logging"] = False
    cfg["_nolog"] = True
    return cfg


def np_seed_for(cfg):
    import hashlib, json
    c = {k: v for k, v in cfg.items() if k not in ("failpoint", "_nolog")}
    if cfg.get("_nolog"):
        c["args"] = {k: v for k, v in cfg["args"].items() if k != "do_logging"}  # a failpoint run shares the random directions of its reference
    return int(hashlib.sha1(json.dumps(engine.jsonable(c), sort_keys=True).encode()).hexdigest()[:8], 16)


def run_cfg(cfg, ctx=None, timeout=60, built=None, **over):
    ctx = ctx or engine.Ctx()
    b = built if built is not None else build(cfg, ctx)
    kw = dict(b.kw)
    kw.update(over)
    # dfols draws from numpy's GLOBAL generator for growing / random / momentum directions: seed it from the configuration so that
    # a run - and therefore a replay - is a function of its cfg alone
    np.random.seed(np_seed_for(cfg))
    engine.apply_failpoint(ctx, cfg.get("failpoint"))
    if cfg.get("_nolog") and not cfg.get("nsamples") and kw.get("do_logging") is False:
        ctx.extra["synth_pairs"] = True
    x0_arg = b.x0 if "x0_view" in b.forms else b.x0.copy()
    if kw.get("print_progress"):
        import io, contextlib
        with contextlib.redirect_stdout(io.StringIO()):
            run = engine.run_solve(b.objfun, x0_arg, ctx=ctx, timeout=timeout, faults=b.faults, persistent=b.persistent, solve_kwargs=kw)
    else:
        run = engine.run_solve(b.objfun, x0_arg, ctx=ctx, timeout=timeout, faults=b.faults, persistent=b.persistent, solve_kwargs=kw)
    run.built = b
    run.cfg = cfg
    return run


# ---------------------------------------------------------------------------
# random generation of cfgs
# ---------------------------------------------------------------------------
def pick(rng, items, p=None):
    return items[int(rng.choice(len(items), p=p))]


def gen_problem(rng, kinds=("linear", "sinlin", "exp", "rosen"), nmax=6, mmax=9, n=None, m=None, noise_p=0.0):
    n = int(n if n is not None else rng.integers(1, nmax + 1))
    m = int(m if m is not None else rng.integers(1, mmax + 1))
    kind = pick(rng, list(kinds))
    spec = dict(kind=kind, n=n, m=m, pseed=int(rng.integers(0, 2 ** 31)))
    if kind == "linear":
        spec["cond"] = float(10.0 ** rng.uniform(0, 3))
        spec["scale"] = float(10.0 ** rng.uniform(-1, 1))
    if rng.random() < noise_p:
        spec["noise"] = float(10.0 ** rng.uniform(-4, -1.5))
        spec["nseed"] = int(rng.integers(0, 2 ** 31))
    return spec


def gen_box(rng, n, one_sided_p=0.3, offset_p=0.3, scale_p=0.5, place_p=0.6, tight_p=0.2, scaling_p=0.35):
    """Bounds, x0, rhobeg, scaling flag. x0 is placed adversarially w.r.t. each bound with probability place_p."""
    off = float(10.0 ** rng.integers(-2, 7)) if rng.random() < offset_p else 1.0
    scale = 10.0 ** rng.integers(-3, 3, size=n).astype(float) if rng.random() < scale_p else np.ones(n)
    lo = rng.normal(size=n) * off
    gap = (0.5 + rng.random(n) * 3) * scale
    hi = lo + gap
    if rng.random() < 0.6:
        # "human" decimal bounds chosen independently of each other: then lo + (hi - lo) != hi for ~20% of pairs,
        # which is what exposes one-ulp overshoots when un-scaling (a box built as hi = lo + gap hides them)
        for j in range(n):
            q = 10.0 ** (int(np.floor(np.log10(gap[j]))) - int(rng.integers(1, 4)))
            lo[j] = float(np.round(lo[j] / q)) * q
            hi[j] = float(np.round(hi[j] / q)) * q
            lo[j] = float("%.12g" % lo[j])
            hi[j] = float("%.12g" % hi[j])
            if not hi[j] > lo[j]:
                hi[j] = lo[j] + gap[j]
    gap = hi - lo  # as representable
    x0 = lo + rng.random(n) * gap
    for j in range(n):
        if rng.random() < place_p:
            u = rng.random()
            if u < 0.2:
                x0[j] = lo[j]
            elif u < 0.4:
                x0[j] = hi[j]
            elif u < 0.5:
                x0[j] = np.nextafter(lo[j], np.inf)
            elif u < 0.6:
                x0[j] = np.nextafter(hi[j], -np.inf)
            elif u < 0.7:
                x0[j] = lo[j] - rng.random() * gap[j]
            elif u < 0.8:
                x0[j] = hi[j] + rng.random() * gap[j]
            elif u < 0.9:
                x0[j] = lo[j] + gap[j] * 10.0 ** rng.uniform(-16, -1)
            else:
                x0[j] = hi[j] - gap[j] * 10.0 ** rng.uniform(-16, -1)
    lower, upper = lo.tolist(), hi.tolist()
    side = rng.random()
    if side < one_sided_p / 2:
        upper = None
    elif side < one_sided_p:
        lower = None
    elif side < one_sided_p + 0.1:
        # mixed: some coordinates unbounded on one side
        for j in range(n):
            u = rng.random()
            if u < 0.3:
                lower[j] = None
            elif u < 0.6:
                upper[j] = None
    full = lower is not None and upper is not None and all(v is not None for v in lower) and all(v is not None for v in upper)
    scaling = bool(full and rng.random() < scaling_p)
    gmin = float(np.min(gap))
    if scaling:
        rhobeg = 0.1
        if rng.random() < tight_p:
            rhobeg = 0.5  # gap (=1 in scaled units) == 2*rhobeg exactly
    else:
        rhobeg = float(min(0.2 * gmin, 0.1 * max(np.max(np.abs(x0)), 1.0)))
        if rng.random() < tight_p and full:
            rhobeg = 0.5 * gmin
            # make sure 2*rhobeg <= min gap as computed by solve (xu - xl)
            while 2.0 * rhobeg > np.min(np.array(upper) - np.array(lower)):
                rhobeg = np.nextafter(rhobeg, 0.0)
    return dict(lower=lower, upper=upper, x0=x0.tolist(), rhobeg=float(rhobeg), scaling=scaling)


def gen_options(rng, n, npt=None, allow=("restarts", "regression", "growing", "random_init", "noise_exit", "tols", "diag", "rare"),
                restarts_p=0.3):
    """user_params sampled strictly inside the documented ranges, avoiding combinations owned by findings
    (boundary values of the parameter table). Growing with more than n directions was excluded too until fix 90bcc32."""
    up = {}
    out = dict(npt=npt)
    r = rng.random
    if "restarts" in allow and r() < restarts_p:
        up["restarts.use_restarts"] = True
        if r() < 0.5:
            up["restarts.use_soft_restarts"] = False
            if r() < 0.4:
                up["restarts.hard.use_old_rk"] = False
        else:
            if r() < 0.3:
                up["restarts.soft.move_xk"] = False
            if r() < 0.3:
                up["restarts.soft.num_geom_steps"] = int(rng.integers(1, 4))
        if r() < 0.3:
            up["restarts.rhoend_scale"] = float(pick(rng, [0.5, 0.1, 0.9]))
        if r() < 0.3:
            up["restarts.max_unsuccessful_restarts"] = int(pick(rng, [1, 2, 3]))
        if r() < 0.25:
            base = npt if npt is not None else n + 1
            cap = (n + 1) * (n + 2) // 2   # beyond this a hard restart needs random initial directions (was a C07 finding; fixed by 0f4f0c6)
            mx = int(base + rng.integers(1, n + 2))
            if mx > cap and np.random.default_rng([mx, n, base, int(rng.integers(0, 2 ** 31))]).random() < 0.6:
                mx = cap
            if mx > base:
                up["restarts.increase_npt"] = True
                up["restarts.max_npt"] = mx
                if r() < 0.3:
                    up["restarts.increase_npt_amt"] = 2
                    # the docs advise equal amounts "to avoid a growing phase" (growing with > n directions: finding D21)
                    up["restarts.hard.increase_ndirs_initial_amt"] = 2
        if r() < 0.2:
            up["restarts.auto_detect"] = False
    narrow = "growing" in allow and n > 1 and "restarts.increase_npt" not in up and (npt is None or npt == n + 1)
    if GROW_WIDE and "growing" in allow and n > 1 and not narrow:
        wide_growing_options(up, n, npt)
    if narrow and r() < 0.2:
        up["growing.ndirs_initial"] = int(rng.integers(1, n + 1))
        if r() < 0.3:
            up["growing.num_new_dirns_each_iter"] = 1
        if r() < 0.3:
            up["growing.do_geom_steps"] = True
        if r() < 0.2:
            up["growing.reset_delta"] = True
            if r() < 0.5:
                up["growing.reset_rho"] = True
        if r() < 0.2:
            up["growing.safety.reduce_delta"] = True
        elif r() < 0.2:
            up["growing.safety.full_geom_step"] = True
    if "regression" in allow and r() < 0.2:
        up["regression.num_extra_steps"] = int(rng.integers(1, 3))
        if r() < 0.5:
            up["regression.momentum_extra_steps"] = True
    if "random_init" in allow and r() < 0.1:
        up["init.random_initial_directions"] = True
        if r() < 0.3:
            up["init.random_directions_make_orthogonal"] = False
        if r() < 0.4:
            up["init.run_in_parallel"] = True     # all initial points evaluated first, processed afterwards (own bookkeeping code)
    if "tols" in allow and r() < 0.2:
        up["slow.max_slow_iters"] = int(rng.integers(2, 10))
        if r() < 0.5:
            up["slow.thresh_for_slow"] = float(10.0 ** rng.uniform(-4, -1))
    if "tols" in allow and r() < 0.1:
        up["restarts.soft.max_fake_successful_steps"] = int(rng.integers(1, 6))
    if "tols" in allow and r() < 0.15:
        up["tr_radius.gamma_dec"] = float(rng.uniform(0.2, 0.9))
        up["tr_radius.gamma_inc"] = float(rng.uniform(1.2, 3.0))
        up["tr_radius.eta1"] = float(rng.uniform(0.01, 0.3))
    if "tols" in allow and r() < 0.1:
        up["general.rounding_error_constant"] = float(10.0 ** rng.uniform(-3, 0))
    if "tols" in allow and r() < 0.1:
        up["interpolation.precondition"] = False
    if "diag" in allow and r() < 0.1:
        up["logging.save_diagnostic_info"] = True
        up["logging.save_poisedness"] = bool(r() < 0.3)
    if "rare" in allow:
        rare_options(up, n, npt=npt)
    out["user_params"] = up
    return out


def wide_growing_options(up, n, npt, p=0.3):
    """Growing initial sets that end up with MORE than n directions (npt > n+1 with a reduced initial set, or restarts that add
    points with unequal amounts): the new direction cannot be orthogonal to the existing ones. Raised ZeroDivisionError until the
    repair recorded in KNOWN_FINDINGS.txt; excluded from every generator until then. Child generator: no other draw moves."""
    import hashlib, json
    seed = int(hashlib.sha1(json.dumps([sorted((k, repr(v)) for k, v in up.items()), n, npt, "grow"]).encode()).hexdigest()[:8], 16)
    g = np.random.default_rng([seed, 29])
    if g.random() >= p:
        return up
    base = npt if npt is not None else n + 1
    up["growing.ndirs_initial"] = int(g.integers(1, base))            # 1 .. npt-1
    if g.random() < 0.5:
        up["growing.num_new_dirns_each_iter"] = int(g.integers(1, 4))
    if g.random() < 0.3:
        up["growing.do_geom_steps"] = True
    if g.random() < 0.2:
        up["growing.safety.reduce_delta"] = True
    elif g.random() < 0.2:
        up["growing.safety.full_geom_step"] = True
    if up.get("restarts.increase_npt") and g.random() < 0.4:
        up["restarts.increase_npt_amt"] = int(g.integers(1, 4))
        up["restarts.hard.increase_ndirs_initial_amt"] = int(g.integers(1, 4))
    return up


def rare_options(up, n, p_block=0.3, reg=False, proj=False, npt=None):
    """Seldom-used keys of the parameter table that no other generator touches (C07 enumerates them, but judges only
    well-formedness): strictly interior, documented-valid values. Drawn from a child generator seeded by the options chosen so far,
    so adding this block did not move any other draw of the callers' streams."""
    import hashlib, json
    seed = int(hashlib.sha1(json.dumps([sorted((k, repr(v)) for k, v in up.items()), n, reg, proj]).encode()).hexdigest()[:8], 16)
    g = np.random.default_rng([seed, 23])
    r = g.random
    if "regression.num_extra_steps" in up and r() < 0.35:
        # more extra steps than there are points to move (documented range: any non-negative integer; the solver caps it)
        up["regression.num_extra_steps"] = int(g.integers(3, 2 * n + 6))
    if up.get("restarts.use_restarts") and "restarts.increase_npt" not in up and "restarts.max_npt" not in up and r() < 0.2:
        # restarts.max_npt above npt while restarts.increase_npt is off: documented no-op
        up["restarts.max_npt"] = int((npt if npt is not None else n + 1) + g.integers(1, n + 3))
    if r() >= p_block:
        return up
    q = 0.35
    if r() < q:
        up["general.safety_step_thresh"] = float(g.uniform(0.05, 0.95))
    if r() < 0.15:
        up["general.check_objfun_for_overflow"] = False
    if r() < q:
        up["tr_radius.eta2"] = float(g.uniform(max(up.get("tr_radius.eta1", 0.1), 0.1) + 0.05, 0.95))
    if r() < q:
        up["tr_radius.gamma_inc_overline"] = float(g.uniform(max(up.get("tr_radius.gamma_inc", 2.0), 1.1), 8.0))
    if r() < q:
        up["slow.history_for_slow"] = int(g.integers(1, 11))
    if r() < q:
        up["noise.scale_factor_for_quit"] = float(10.0 ** g.uniform(-1, 1))
    if up.get("restarts.use_restarts"):
        if "regression.num_extra_steps" in up and r() < 0.6:
            up["regression.increase_num_extra_steps_with_restart"] = int(g.integers(1, 3))
        if up.get("restarts.auto_detect", True) and r() < 0.6:
            up["restarts.auto_detect.history"] = int(g.integers(2, 41))
            if r() < 0.5:
                up["restarts.auto_detect.min_chgJ_slope"] = float(10.0 ** g.uniform(-4, 0))
            if r() < 0.5:
                up["restarts.auto_detect.min_correl"] = float(g.uniform(0.01, 0.9))
    if "growing.ndirs_initial" in up:
        if r() < q:
            up["growing.delta_scale_new_dirns"] = float(g.uniform(0.1, 1.0))
        if r() < 0.25:
            up["growing.safety.do_safety_step"] = False
        if r() < q:
            up["growing.full_rank.scale_factor"] = float(10.0 ** g.uniform(-4, 0))
        if r() < q:
            up["growing.full_rank.min_sing_val"] = float(10.0 ** g.uniform(-10, -2))
        if r() < q:
            up["growing.full_rank.svd_scale_factor"] = float(g.uniform(0.05, 1.0))
        if r() < q:
            up["growing.full_rank.svd_max_jac_cond"] = float(10.0 ** g.uniform(2, 12))
        if r() < 0.2:
            up["growing.gamma_dec"] = float(g.uniform(0.2, 0.95))
    if proj and r() < 0.5:
        up["matrix_rank.r_tol"] = float(10.0 ** g.uniform(-20, -12))
    if reg:
        if r() < 0.5:
            up["func_tol.criticality_measure"] = float(10.0 ** g.uniform(-5, -1))
        if r() < 0.5:
            up["func_tol.tr_step"] = float(g.uniform(0.5, 0.99))
        if r() < 0.5:
            up["func_tol.max_iters"] = int(g.integers(50, 1000))
        if r() < 0.5:
            up["sfista.max_iters_scaling"] = float(g.uniform(1.0, 4.0))
    return up


def gen_convex_sets(rng, n, nsets=None, margin=None):
    """1-3 balls / half-spaces / boxes sharing an interior point z (margin = distance of z to every boundary)."""
    nsets = int(nsets if nsets is not None else rng.integers(1, 4))
    z = rng.normal(size=n) * float(10.0 ** rng.uniform(-1, 1))
    margin = float(margin if margin is not None else 10.0 ** rng.uniform(-1.3, 0))
    sets = []
    for _ in range(nsets):
        t = pick(rng, ["ball", "half", "box"])
        if t == "ball":
            r = margin * (1.0 + 3 * rng.random())
            d = rng.normal(size=n)
            d /= np.linalg.norm(d)
            c = z + d * (r - margin) * rng.random()
            sets.append(dict(type="ball", c=c.tolist(), r=float(r)))
        elif t == "half":
            a = rng.normal(size=n)
            a /= np.linalg.norm(a)
            bb = float(a @ z + margin * (1 + 2 * rng.random()))
            sets.append(dict(type="half", a=a.tolist(), b=bb))
        else:
            l = z - margin * (1 + 3 * rng.random(n))
            u = z + margin * (1 + 3 * rng.random(n))
            sets.append(dict(type="box", l=l.tolist(), u=u.tolist()))
    return sets, z, margin
